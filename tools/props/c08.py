"""C08 — state migration plans are well-formed and keep everything that survives."""
import os, json, subprocess, collections
from vlib import *

MODULES = ["Mimium.Props.C08"]


def compare_stream(ctx, name, mmh_args, stats, stdin_data=None):
    """run implementation and model on one stream of layout pairs; returns list of problem records"""
    p = mmh("C08", mmh_args, input=stdin_data)
    if p.returncode != 0:
        return [{"kind": "harness-crash", "stream": name, "stderr": p.stderr[-2000:]}]
    impl = p.stdout
    q = driver("C08", input=impl)
    if q.returncode != 0:
        return [{"kind": "driver-crash", "stream": name, "stderr": q.stderr[-2000:]}]
    il, ml = impl.split("\n"), q.stdout.split("\n")
    problems = []
    for a, b in zip(il, ml):
        if not a:
            continue
        f = a.split("\t")
        g = b.split("\t")
        stats["evaluations"] += 1
        old, new, ip, ia = f[0], f[1], f[2], f[3]
        if len(g) < 3:
            problems.append({"kind": "driver-bad-line", "old": old, "new": new, "driver": b})
            continue
        mp, ma, verdict = g[0], g[1], g[2]
        nontrivial = ip not in ("-", ".")
        if nontrivial:
            stats["nontrivial"].add(hash((old, new)))
        stats["plans_none" if ip == "-" else ("plans_empty" if ip == "." else "plans_nonempty")] += 1
        stats["patches_hist"][min(ip.count(":") // 2, 8)] += 1
        agree = (ip == mp and ia == ma)
        if not agree:
            stats["disagreements"] += 1
        if verdict != "ok":
            stats["impl_property_failures"] += 1
        if agree and verdict == "ok":
            if len(stats["samples"]) < 5 and nontrivial and stats["evaluations"] % 997 == 3:
                stats["samples"].append({"old": old, "new": new, "impl_patches": ip, "impl_applied": ia, "model_patches": mp, "judge": verdict})
            continue
        problems.append({"kind": "case", "stream": name, "old": old, "new": new, "impl_patches": ip, "impl_applied": ia,
                         "model_patches": mp, "model_applied": ma, "judge": verdict, "agree": agree})
    return problems


def main(ctx, args):
    ctx.assumptions += [
        "model Model/StateTree.lean is a hand port of state-tree/src/{tree,tree_diff,patch,lib}.rs; the tie is the correspondence run below",
        "scores are f64 patch counts in Rust, Nat in the model (exact below 2^53)",
        "HashSet<CopyFromPatch> modelled as duplicate-free list; patch sets compared after sorting",
        "storage words modelled as Nat (copying is value-agnostic)",
    ]
    known = load_known("C08")
    if not extract(ctx):
        ctx.finish()
    proved = prove(ctx, MODULES)
    if proved and ctx.tier == "thorough":
        proved = leancheck(ctx, MODULES)
    if not build_harness(ctx):
        ctx.finish()
    stats = {"evaluations": 0, "nontrivial": set(), "disagreements": 0, "impl_property_failures": 0, "samples": [],
             "plans_none": 0, "plans_empty": 0, "plans_nonempty": 0, "patches_hist": collections.Counter()}
    problems = []
    if args.replay:
        r = json.load(open(args.replay))
        data = f"{r['old']}\t{r['new']}\n"
        problems += compare_stream(ctx, "replay", ["pairs"], stats, stdin_data=data)
    else:
        # corpus first (minimised past failures, hand-picked)
        cdir = os.path.join(VERIF, "corpus", "C08")
        data = ""
        for fn in sorted(os.listdir(cdir)):
            data += "".join(l for l in open(os.path.join(cdir, fn)) if "\t" in l and not l.startswith("#"))
        problems += compare_stream(ctx, "corpus", ["pairs"], stats, stdin_data=data)
        maxn = 4 if ctx.tier == "quick" else 5
        shards = 1 if ctx.tier == "quick" else 32
        jobs = [("enum", ["enum", str(maxn), str(k), str(shards)]) for k in range(shards)]
        nrand = 16 if ctx.tier == "quick" else 64
        per = 20000 if ctx.tier == "quick" else 100000
        for i in range(nrand):
            jobs.append((f"rand{i}", ["rand", str(ctx.seed * 1000 + i), str(per), str(12 + 8 * (i % 8))]))
        locals_ = []

        def work(job):
            st = {"evaluations": 0, "nontrivial": set(), "disagreements": 0, "impl_property_failures": 0, "samples": [],
                  "plans_none": 0, "plans_empty": 0, "plans_nonempty": 0, "patches_hist": collections.Counter()}
            pr = compare_stream(ctx, job[0], job[1], st)
            return st, pr
        for st, pr in parallel(jobs, work):
            for k in ("evaluations", "disagreements", "impl_property_failures", "plans_none", "plans_empty", "plans_nonempty"):
                stats[k] += st[k]
            stats["nontrivial"] |= st["nontrivial"]
            stats["patches_hist"].update(st["patches_hist"])
            stats["samples"] += st["samples"][:1]
            problems += pr
        ctx.coverage["exhaustive_scope"] = f"all ordered pairs of layouts with <= {maxn} nodes over leaves {{M1,E1,E2,D1,D2}} and empty F[]"
        ctx.coverage["exhaustive"] = False
    # ---- decide
    known_keys = {(k["old"], k["new"]): k for k in known if "old" in k}
    known_classes = [k for k in known if "class" in k]
    new_fail, known_hits, disagree = [], collections.Counter(), []
    for pr in problems:
        if pr["kind"] != "case":
            ctx.violation(f"{pr['kind']} in stream {pr.get('stream')}", pr, found_input=False)
            continue
        if pr["judge"] != "ok":
            key = (pr["old"], pr["new"])
            if key in known_keys:
                known_hits[known_keys[key]["id"]] += 1
                continue
            cls = [k for k in known_classes if k["class"] == "model-predicted-" + pr["judge"] and pr["agree"]]
            if cls:
                known_hits[cls[0]["id"]] += 1
                continue
            new_fail.append(pr)
        elif not pr["agree"]:
            disagree.append(pr)
    sz = lambda pr: len(pr["old"]) + len(pr["new"])
    if new_fail:
        best = min(new_fail, key=sz)
        ctx.violation(f"implementation plan fails C08 ({best['judge']}) on old={best['old']} new={best['new']}; {len(new_fail)} failing cases",
                      dict(best, replay_cmd=f"./check C08 --replay <this file>", failing_cases=len(new_fail)))
    elif disagree:
        best = min(disagree, key=sz)
        ctx.violation(f"model/implementation disagree on {len(disagree)} cases (smallest: old={best['old']} new={best['new']}) but no property failure found",
                      dict(best, correspondence="Model/StateTree.lean vs state-tree crate", cases=len(disagree)), found_input=False)
    if not proved:
        # proof obligation broken: the correspondence + judge above was the search for a concrete failing input
        if not new_fail:
            ctx.violation("proof obligation broken: " + "; ".join(ctx._broken), {"stage": "prove", "theorems": ctx._broken,
                          "lake": getattr(ctx, "_lake_errors", "")}, found_input=False)
    for k in known:
        n = known_hits.get(k["id"], 0)
        if n or args.replay is None:
            ctx.known_finding(f"{k['id']} {k['what']} (cases hit this run: {n})")
    ctx.coverage.update({
        "evaluations": stats["evaluations"],
        "distinct_nontrivial": len(stats["nontrivial"]),
        "rule": "pairs of layouts: exhaustive small scope + random trees (<=76 nodes) with 0-4 random edits (delete/insert/duplicate subtree, wrap, resize); non-trivial = the implementation produced a non-empty plan; distinct = distinct (old,new) text",
        "samples": stats["samples"][:6] or [{"note": "no non-trivial sample in replay mode"}],
        "traces_validated_against_impl": stats["evaluations"],
        "model_impl_disagreements": stats["disagreements"],
        "impl_property_failures": stats["impl_property_failures"],
        "input_distribution": {"plan_none(identical)": stats["plans_none"], "plan_empty": stats["plans_empty"],
                               "plan_nonempty": stats["plans_nonempty"],
                               "patches_per_plan_hist": {str(k): v for k, v in sorted(stats["patches_hist"].items())}},
    })
    ctx.finish("proof")
