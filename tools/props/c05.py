"""C05 — compile-time state layout matches run-time state accesses."""
import collections
from vlib import *
import progcheck as pc

MODULES = ["Mimium.Props.C05"]


def run_c05(cases, nshards=None):
    nshards = nshards or min(NCPU, max(1, len(cases) // 20))
    shards = [cases[i::nshards] for i in range(nshards)]

    def work(sh):
        if not sh:
            return {}
        raw = run_isolated(os.path.join(BIN, "c05"), [(c["id"], json.dumps({"id": c["id"], "src": c["src"], "times": c["times"], "inputs": c["inputs"]})) for c in sh])
        lines = "".join("\t".join([i] + f + ["-"] * (3 - len(f))) + "\n" for i, f in raw.items())
        q = driver("C05", input=lines)
        res = {}
        for a, b in zip(lines.splitlines(), q.stdout.splitlines()):
            fa, fb = a.split("\t"), b.split("\t")
            if len(fa) >= 4 and len(fb) >= 2:
                res[fa[0]] = (fa[1], fa[2], fa[3], fb[1])
        for c in sh:
            res.setdefault(c["id"], ("harness-died", "-", "-", "skip:harness-died"))
        return res
    out = {}
    for r in parallel(shards, work, nproc=nshards):
        out.update(r)
    return out


def judge(status, skel, recs, verdict, compare_words=True):
    """returns (reason or None, info)"""
    if status != "ok":
        cls = status.split(" ")[0]
        return (None if cls == "compile-error" else "run:" + status[:200]), None
    if not verdict.startswith("ok"):
        return "layout:" + verdict[:600], None
    # flat words of VM and WASM after every sample
    for k, r in enumerate(recs.split("|")):
        f = r.split("@")
        if compare_words and len(f) >= 4 and f[2] != f[3]:
            vw, ww = f[2].split(","), f[3].split(",")
            # WASM may hold extra trailing zero words (storage grown on demand): compare the VM's extent
            if vw != ww[:len(vw)] or any(x not in ("0", ".") for x in ww[len(vw):]):
                return f"state-words-differ at sample {k}: vm={f[2][:200]} wasm={f[3][:200]}", None
    return None, verdict


def main(ctx, args):
    ctx.assumptions += [
        "hook runtime::vm::verif (cfg mimium_verif) records (kind, cursor, size) at GetState/SetState/Mem/Delay and asserts pos+size <= storage length",
        "Model/Layout.lean states what a published layout means for run-time accesses; only accesses to the global (dsp) storage are judged, closure storages are counted but not judged",
        "generator keeps stateful constructs out of `if` arms (known findings F3/F4) and one delay size per function (F2)",
    ]
    known = load_known("C05")
    if not extract(ctx):
        ctx.finish()
    proved = prove(ctx, MODULES)
    if proved and ctx.tier == "thorough":
        proved = leancheck(ctx, MODULES)
    if not build_harness(ctx):
        ctx.finish()
    times = 12 if ctx.tier == "quick" else 48
    plan = [("core", 700), ("deep", 300), ("scalar", 400), ("scalar_deep", 300)] if ctx.tier == "quick" else [("core", 8000), ("deep", 3000), ("scalar", 4000), ("scalar_deep", 3000)]
    if args.replay:
        r = json.load(open(args.replay))
        allcases = [{"id": "replay", "src": r["src"], "inputs": r.get("inputs", []), "times": r.get("times", 8)}]
    else:
        allcases, off = [], 0
        for prof, n in plan:
            cs, _ = pc.gen_cases(ctx.seed, n, prof, times, start=off)
            off += n
            allcases += cs
    res = run_c05(allcases)
    failures, stats, nontriv, samples = [], collections.Counter(), set(), []
    for c in allcases:
        status, skel, recs, verdict = res[c["id"]]
        stats["evaluations"] += 1
        # VM/WASM word comparison on the scalar profiles only: with tuples/closures the pinned WASM backend has the
        # defects listed under C01 (G1, G2, F18, F20), which also corrupt its state words
        why, info = judge(status, skel, recs, verdict, compare_words=c.get("profile", "scalar").startswith("scalar"))
        if why is None:
            if info:
                n_acc = int(info.split(" ")[2])
                stats["accesses_judged"] += n_acc
                if n_acc > 0 and skel not in ("F[]", "-"):
                    nontriv.add(hash(c["src"]))
                    stats["layouts_" + ("nested" if skel.count("F[") > 1 else "flat")] += 1
                    if len(samples) < 4 and stats["evaluations"] % 89 == 3:
                        samples.append({"src": c["src"], "layout": skel, "first_sample_record": recs.split("|")[0][:300]})
        else:
            failures.append((c, why, skel))
    kres = run_c05([{"id": k["id"], "src": k["src"], "inputs": k.get("inputs", []), "times": k.get("times", 8)} for k in known if "src" in k], nshards=1) if known else {}
    for k in known:
        if "src" not in k:
            continue
        why, _ = judge(*kres[k["id"]])
        if why is not None:
            ctx.known_finding(f"{k['id']} {k['what']} [still fails: {why[:120]}]")
        else:
            ctx.notes.append(f"known finding {k['id']} no longer reproduces")
    if failures:
        failures.sort(key=lambda f: len(f[0]["src"]))
        c, why, skel = failures[0]
        rep = {"src": c["src"], "inputs": c["inputs"], "times": c["times"], "why": why, "layout": skel, "failing_cases": len(failures), "case_id": c["id"]}
        if "prog" in c:
            key = why.split(":")[0]

            def still(src, sx, inputs):
                r = run_c05([{"id": "s", "src": src, "inputs": inputs, "times": c["times"]}], nshards=1)["s"]
                w, _ = judge(*r)
                return w is not None and w.split(":")[0] == key
            rep["shrunk"] = pc.shrink_case(c, still)
            rep["src"] = rep["shrunk"]["src"]
        ctx.violation(f"run-time state accesses do not match the published layout ({why[:300]}) on {len(failures)} programs; smallest:\n{rep['src']}", rep)
    if not proved and not failures:
        ctx.violation("proof obligation broken: " + "; ".join(ctx._broken), {"stage": "prove", "theorems": ctx._broken,
                      "lake": getattr(ctx, "_lake_errors", "")}, found_input=False)
    ctx.coverage.update({
        "evaluations": stats["evaluations"],
        "distinct_nontrivial": len(nontriv),
        "rule": "generated programs with stateful call trees (nested calls, tuple/scalar self, mem, delay) run %d samples; per dsp call the recorded VM accesses are judged by the Lean checker `conforms` against the published dsp layout, the cursor must be 0, and VM/WASM flat state words must be equal; non-trivial = at least one state access and a non-empty layout" % times,
        "samples": samples or [{"note": "replay mode"}],
        "traces_validated_against_impl": stats["evaluations"],
        "state_accesses_judged": stats["accesses_judged"],
        "layouts_nested": stats["layouts_nested"], "layouts_flat": stats["layouts_flat"],
        "failures": len(failures),
    })
    ctx.finish("proof")
