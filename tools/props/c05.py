"""C05 — compile-time state layout matches run-time state accesses."""
import collections
from vlib import *
import progcheck as pc

MODULES = ["Mimium.Props.C05"]

# Evaluation order of a parameter-pack call.  `f({b = e1, a = e2})` builds a record first: mirgen evaluates the fields in
# SORTED-NAME order (`alloc_record_aggregate` walks the canonical record type, fields sorted by key), then unpacks it into the
# positional arguments.  The core `call` evaluates its arguments in parameter order, which is the same order unless the
# parameter names do not sort positionally (`a9, a10`).  The published layout lists cells in evaluation order, so for such
# a call the model input of THIS check binds the given arguments in mirgen's order first:
#   (let rp<site>_<name> e … (call f site (var rp<site>_<name>) …))          (found by the thorough tier: deep:1:10998)
import coregen as _cg
_plain_sx = _cg.sx


def _sx_pack_order(n):
    if n.kind == "call" and len(n.a) > 3 and n.a[3] == "record":
        names, omitted = n.a[4], n.a[5]
        given = [nm for nm in names if nm not in omitted]
        if sorted(given) != given:
            site = n.a[2]
            tmp = {nm: f"rp{site}_{nm}" for nm in given}
            args = [f"(var {tmp[nm]})" if nm in tmp else _cg.sx(a) for nm, a in zip(names, n.a[1])]
            out = f"(call {n.a[0]} {site} " + " ".join(args) + ")"
            for nm in reversed(sorted(given)):
                out = f"(let {tmp[nm]} {_cg.sx(n.a[1][names.index(nm)])} {out})"
            return out
    return _plain_sx(n)


_cg.sx = _sx_pack_order


def run_c05(cases, nshards=None):
    nshards = nshards or min(NCPU, max(1, len(cases) // 20))
    shards = [cases[i::nshards] for i in range(nshards)]

    def work(sh):
        if not sh:
            return {}
        raw = run_isolated(os.path.join(BIN, "c05"), [(c["id"], json.dumps({"id": c["id"], "src": c["src"], "times": c["times"], "inputs": c["inputs"]})) for c in sh])
        sxs = {c["id"]: (c.get("sx") or "-").replace("\t", " ").replace("\n", " ") for c in sh}
        lines = "".join("\t".join([i] + f + ["-"] * (3 - len(f)) + [sxs.get(i, "-")]) + "\n" for i, f in raw.items())
        q = driver("C05", input=lines)
        res = {}
        for a, b in zip(lines.splitlines(), q.stdout.splitlines()):
            fa, fb = a.split("\t"), b.split("\t")
            if len(fa) >= 4 and len(fb) >= 2:
                res[fa[0]] = (fa[1], fa[2], fa[3], fb[1], fb[2] if len(fb) > 2 else "nomodel:no-verdict")
        for c in sh:
            res.setdefault(c["id"], ("harness-died", "-", "-", "skip:harness-died", "nomodel:harness-died"))
        return res
    out = {}
    for r in parallel(shards, work, nproc=nshards):
        out.update(r)
    return out


def _mentions_self(n):
    return n.kind == "self" or any(_mentions_self(ch) for _, ch in _cg.children(n))


def shrink_layout_case(case, still_differs, budget=250):
    """minimise a program on which model and compiler publish different layouts.  The generic shrinker keeps a function's
    `uses_self` flag when it shrinks `self` out of the body (the S-expression would then declare a self shape the source no
    longer has): such candidates are not programs of the fragment and are rejected."""
    def pred(q):
        try:
            if any(f.uses_self != _mentions_self(f.body) for f in q.fns + [q.dsp]):
                return False
            return still_differs(q.src(), q.sx(), case["inputs"])
        except Exception:
            return False
    try:
        q = _cg.shrink(case["prog"], pred, budget)
        return {"src": q.src(), "sx": q.sx(), "inputs": case["inputs"], "times": case["times"]}
    except Exception as e:
        return {"src": case["src"], "sx": case["sx"], "inputs": case["inputs"], "times": case["times"], "shrink_error": str(e)}


def pubinfo(pub):
    """`same cells=3 depth=1 …` -> ("same", {"cells": 3, …}); `diff model=F[..] cells=…` -> ("diff", {…, "model": "F[..]"})"""
    f = pub.split(" ")
    d = {}
    for kv in f[1:]:
        k, _, v = kv.partition("=")
        d[k] = int(v) if v.isdigit() else v
    return f[0], d


def judge(status, skel, recs, verdict, pub="-", compare_words=True):
    """returns (reason or None, info)"""
    if status != "ok":
        cls = status.split(" ")[0]
        return (None if cls == "compile-error" else "run:" + status[:200]), None
    if not verdict.startswith("ok"):
        return "layout:" + verdict[:600], None
    # flat words of VM and WASM after every sample
    for k, r in enumerate(recs.split("|")):
        f = r.split("@")
        if compare_words and len(f) >= 4 and f[2] != f[3]:
            vw, ww = ([] if x == "." else x.split(",") for x in (f[2], f[3]))
            # the WASM storage grows on demand (cells of an arm never taken are not there yet), the VM's is sized from the
            # layout: the storages are equal when the common extent is and the rest of the longer one is zero
            k2 = min(len(vw), len(ww))
            if vw[:k2] != ww[:k2] or any(x not in ("0", ".") for x in vw[k2:] + ww[k2:]):
                return f"state-words-differ at sample {k}: vm={f[2][:200]} wasm={f[3][:200]}", None
    return None, verdict


def main(ctx, args):
    ctx.assumptions += [
        "hook runtime::vm::verif (cfg mimium_verif) records (kind, cursor, size) at GetState/SetState/Mem/Delay and asserts pos+size <= storage length",
        "Model/Layout.lean states what a published layout means for run-time accesses; only accesses to the global (dsp) storage are judged, closure storages are counted but not judged",
        "stateful constructs occur inside `if` arms (finding F3 repaired): a call touches the cells outside arms and those of the arms taken; programs without state in arms (class noStatefulInArms, decided by drv_c05 from the S-expression) are judged by the strict checker `conforms`, the others by `conformsSel` (in-order sub-selection, self first/last)",
        "Model/Publish.lean is a hand port of how mirgen's eval_expr accumulates state_skeleton; its dsp skeleton (publishedSk (publishFn P dsp)) is compared with get_dsp_state_skeleton of the real compiler for every generated program",
    ]
    known = load_known("C05")
    if not extract(ctx):
        ctx.finish()
    proved = prove(ctx, MODULES, drivers=["drv_c05", "drv_mir"])
    if proved and ctx.tier == "thorough":
        proved = leancheck(ctx, MODULES)
    if not build_harness(ctx):
        ctx.finish()
    # the kernel-evaluated examples of Props/C05, C03, C18 are stated on Lean terms generated from real dumps
    # (tools/mirlean.py, corpus/MIR/*.mmm): are they still what the compiler produces?
    ex = run([sys.executable, os.path.join(VERIF, "tools", "mirlean.py"), "--check"], cwd=VERIF)
    example_state = ex.stdout.strip() or ("error: " + ex.stderr[-200:])
    if example_state != "current":
        ctx.notes.append("the MIR of corpus/MIR/*.mmm changed since lean/Mimium/Proofs/MirExample.lean was generated (" + example_state +
                         "): regenerate with `python3 tools/mirlean.py` and re-check the examples")
    times = 12 if ctx.tier == "quick" else 48
    # the streams "f3" / "f2" were layout-only while findings F3 (state inside `if` arms) and F2 (several delay sizes) were
    # open; both are repaired, they are ordinary run streams now
    plan = ([("core", 700), ("deep", 300), ("scalar", 400), ("scalar_deep", 300), ("f3", 400), ("f2", 100)] if ctx.tier == "quick"
            else [("core", 8000), ("deep", 3000), ("scalar", 4000), ("scalar_deep", 3000), ("f3", 4000), ("f2", 1000)])
    if args.replay:
        r = json.load(open(args.replay))
        allcases = [{"id": "replay", "src": r["src"], "sx": r.get("sx"), "inputs": r.get("inputs", []), "times": r.get("times", 8)}]
    else:
        allcases, off = [], 0
        for prof, n in plan:
            cs, _ = pc.gen_cases(ctx.seed, n, prof, times, start=off)
            off += n
            allcases += cs
        # arrays (no reference semantics): stateful constructs in the index / the elements / nested accesses, in helpers and in dsp
        import arrgen
        allcases += arrgen.make(ctx.seed, 120 if ctx.tier == "quick" else 180)
        # integer `match` with stateful arms (tools/gen/matchgen.py; no reference semantics, no modelled layout): the hook's trace
        # against the published layout (seeded C03e dropped the cells of the wildcard arm from the layout)
        import matchgen
        for i in range(150 if ctx.tier == "quick" else 1000):
            msrc, minp = matchgen.make_case(ctx.seed, i, times)
            allcases.append({"id": f"matchint:{ctx.seed}:{i}", "src": msrc, "sx": None, "inputs": minp, "times": times, "profile": "match"})
    res = run_c05(allcases)
    lo_cases, lo_res = [], {}      # (no layout-only stream any more)
    # layout-only stream (compiled, not run: times = 0): the streams aimed AT findings F3 (state inside `if` arms) and F2
    # (several delay sizes), where the run-time accesses are known to be wrong but what mirgen PUBLISHES is still modelled
    lo_cases = []
    if not args.replay:
        for prof, n in ([("f3", 400), ("f2", 100)] if ctx.tier == "quick" else [("f3", 4000), ("f2", 1000)]):
            cs, _ = pc.gen_cases(ctx.seed, n, prof, 0, start=0)
            lo_cases += cs
    lo_res = run_c05(lo_cases) if lo_cases else {}
    # the per-program proof obligation: `stateOkFn` (Model/MirState.lean) on every function of the MIR the compiler produced
    static = pc.mir_static(allcases + lo_cases)
    # and the state semantics itself: trace, cursor and storage words of the Lean MIR run against the VM's hook records, per sample
    mtr = pc.mir_traces(allcases)
    failures, stats, nontriv, samples = [], collections.Counter(), set(), []
    layout_diffs, layout_samples, layout_nontriv = [], [], set()

    def account_layout(c, status, skel, pub):
        """published layout: Lean model of mirgen vs the real compiler (every program that compiled)"""
        if skel in ("-", ""):
            return
        kind, pi = pubinfo(pub)
        if kind == "same":
            stats["layouts_compared"] += 1
            stats["layouts_agree"] += 1
            nt = pi.get("cells", 0) >= 2
            incls = pi.get("cls", 0) == 1 and pi.get("sites", 0) == 1
            inwide = pi.get("clsz", 0) == 1 and pi.get("sites", 0) == 1
            stats["layout_in_wide_class"] += inwide
            stats["layout_nontrivial_in_wide_class"] += (nt and inwide)
            stats["layout_ge2_cells"] += nt
            stats["layout_nested"] += pi.get("depth", 0) >= 1
            stats["layout_nested2"] += pi.get("depth", 0) >= 2
            stats["layout_with_delay"] += pi.get("delays", 0) >= 1
            stats["layout_with_pruned_stateless_child"] += pi.get("zero", 0) >= 1
            stats["layout_in_theorem_class"] += incls
            stats["layout_outside_class_state_in_arms"] += pi.get("clsz", 0) == 0
            stats["layout_nontrivial_in_class"] += (nt and incls)
            if nt:
                layout_nontriv.add(hash(c["src"]))
            if nt and pi.get("depth", 0) >= 1 and pi.get("delays", 0) >= 1 and len(layout_samples) < 3:
                layout_samples.append({"src": c["src"], "published": skel, "model": pub})
        elif kind == "diff":
            stats["layouts_compared"] += 1
            layout_diffs.append((c, skel, pub, pi))
        else:
            stats["nomodel_" + pub.split(":")[-1][:60]] += 1

    for c in allcases:
        status, skel, recs, verdict, pub = res[c["id"]]
        stats["evaluations"] += 1
        account_layout(c, status, skel, pub)
        # VM/WASM word comparison on the scalar profiles only: with tuples/closures the pinned WASM backend has the
        # defects listed under C01 (G1, G2, F18, F20), which also corrupt its state words
        why, info = judge(status, skel, recs, verdict, pub, compare_words=c.get("profile", "scalar").startswith("scalar"))
        if why is None:
            if info:
                n_acc = int(info.split(" ")[2])
                stats["accesses_judged"] += n_acc
                kv = dict(x.split("=") for x in info.split(" ")[3:] if "=" in x)
                stats["programs_judged_" + kv.get("mode", "?")] += 1
                if kv.get("mode") == "sel":
                    stats["accesses_skipped_by_untaken_arms"] += int(kv.get("skipped", 0))
                    stats["programs_sel_with_skipped_access"] += int(kv.get("skipped", 0)) > 0
                if n_acc > 0 and skel not in ("F[]", "-"):
                    nontriv.add(hash(c["src"]))
                    stats["layouts_" + ("nested" if skel.count("F[") > 1 else "flat")] += 1
                    if len(samples) < 4 and stats["evaluations"] % 89 == 3:
                        samples.append({"src": c["src"], "layout": skel, "first_sample_record": recs.split("|")[0][:300]})
        else:
            failures.append((c, why, skel))
    for c in lo_cases:
        status, skel, recs, verdict, pub = lo_res[c["id"]]
        stats["layout_only_programs"] += 1
        account_layout(c, status, skel, pub)
    # static state check of the MIR against the per-program trace verdicts
    sstat, s_limits, s_contra = collections.Counter(), [], []
    failed_ids = {c["id"] for c, _, _ in failures}
    for c in allcases:
        st = static.get(c["id"], {"status": "missing"})
        if st["status"] != "ok":
            sstat["not_dumped_" + st["status"]] += 1
            continue
        sstat["programs"] += 1
        sstat["functions"] += st["fns"]
        sstat["functions_pass"] += st["ok"]
        sstat["programs_all_functions_pass"] += st["ok"] == st["fns"]
        if not st["checked"]:
            s_contra.append((c, "okSet is not closed under the check (okSetChecked = false)", st))
        ran_ok = res[c["id"]][0] == "ok"
        conform = ran_ok and c["id"] not in failed_ids
        dsp_pass = "dsp" not in st["fail"]
        if dsp_pass and ran_ok:
            sstat["dsp_passes_and_vm_traces_conform" if conform else "dsp_passes_but_vm_traces_do_not_conform"] += 1
            if not conform:
                s_contra.append((c, "dsp passes the static check but the VM's recorded traces do not conform", st))
        if st["fail"] and conform:
            sstat["programs_with_a_failing_function_whose_traces_conform"] += 1
            if len(s_limits) < 5:
                s_limits.append({"src": c["src"], "failing_functions": st["fail"]})
    tstat, t_bad = collections.Counter(), []

    def canon_words(ws):
        """state words with every NaN written `nan` (the property's own convention; Lean's Float.toBits canonicalises NaN)"""
        if ws == ".":
            return ws
        out = []
        for w in ws.split(","):
            v = int(w, 16)
            out.append("nan" if (v >> 52) & 0x7ff == 0x7ff and v & ((1 << 52) - 1) else w)
        return ",".join(out)
    for c in allcases:
        status, skel, recs, verdict, pub = res[c["id"]]
        m = mtr.get(c["id"], "missing")
        if status != "ok" or recs in ("-", ""):
            continue
        if not m.startswith("ok "):
            tstat["mir_run_" + m.split(" ")[0]] += 1
            if c["id"] not in failed_ids and not m.startswith("unsupported"):
                t_bad.append((c, "the MIR run ends `" + m[:80] + "` where the VM runs and conforms", None))
            continue
        tstat["programs_compared"] += 1
        vm_recs, mir_recs = recs.split("|"), m[3:].split("|")
        for k, (a, b) in enumerate(zip(vm_recs, mir_recs)):
            fa, fb = a.split("@"), b.split("@")
            # the hook also records accesses to closure storages (g=0): the MIR run's trace is that of the global storage
            ga = ";".join(x for x in fa[0].split(";") if x.split(":")[1:2] == ["1"]) or "."
            tstat["samples_compared"] += 1
            if (ga, fa[1], canon_words(fa[2])) != (fb[0], fb[1], canon_words(fb[2])):
                tstat["samples_differ"] += 1
                if c["id"] not in failed_ids:
                    t_bad.append((c, f"sample {k}: VM trace/cursor/words {ga}@{fa[1]}@{fa[2][:120]} vs MIR run {fb[0]}@{fb[1]}@{fb[2][:120]}", k))
                break
        else:
            if len(vm_recs) != len(mir_recs):
                t_bad.append((c, f"{len(vm_recs)} VM records vs {len(mir_recs)} MIR records", None))
            else:
                tstat["programs_equal"] += 1
    for c in lo_cases:
        st = static.get(c["id"], {"status": "missing"})
        if st["status"] == "ok":
            sstat["layout_only_stream_programs"] += 1
            sstat["layout_only_stream_programs_with_a_failing_function"] += bool(st["fail"])
    kres = run_c05([{"id": k["id"], "src": k["src"], "inputs": k.get("inputs", []), "times": k.get("times", 8)} for k in known if "src" in k], nshards=1) if known else {}
    for k in known:
        if "src" not in k:
            continue
        why, _ = judge(*kres[k["id"]])
        if why is not None:
            ctx.known_finding(f"{k['id']} {k['what']} [still fails: {why[:120]}]")
        else:
            ctx.notes.append(f"known finding {k['id']} no longer reproduces")
    if failures:
        failures.sort(key=lambda f: len(f[0]["src"]))
        c, why, skel = failures[0]
        rep = {"src": c["src"], "inputs": c["inputs"], "times": c["times"], "why": why, "layout": skel, "failing_cases": len(failures), "case_id": c["id"]}
        if "prog" in c:
            key = why.split(":")[0]

            def still(src, sx, inputs):
                r = run_c05([{"id": "s", "src": src, "inputs": inputs, "times": c["times"]}], nshards=1)["s"]
                w, _ = judge(*r)
                return w is not None and w.split(":")[0] == key
            rep["shrunk"] = pc.shrink_case(c, still)
            rep["src"] = rep["shrunk"]["src"]
        ctx.violation(f"run-time state accesses do not match the published layout ({why[:300]}) on {len(failures)} programs; smallest:\n{rep['src']}", rep)
    if layout_diffs:
        # a disagreement between the Lean model of mirgen and the real mirgen: grouped by the class predicate
        # (a cell with state published for an `if` arm, clsz=0 — the class of the repaired finding F3 — vs. the rest)
        layout_diffs.sort(key=lambda f: len(f[0]["src"]))
        in_f3 = [d for d in layout_diffs if d[3].get("clsz", 1) == 0]
        other = [d for d in layout_diffs if d[3].get("clsz", 1) != 0]
        stats["layout_diffs_in_class_F3"] = len(in_f3)
        stats["layout_diffs_other"] = len(other)
        for group, label in ((other, "outside every listed class"), (in_f3, "state inside `if` arms (class of the repaired F3)")):
            if not group:
                continue
            c, skel, pub, pi = group[0]
            rep = {"src": c["src"], "sx": c.get("sx"), "inputs": c["inputs"], "times": c["times"], "published_by_compiler": skel,
                   "published_by_model": pi.get("model"), "why": "layout:model-differs", "disagreeing_programs": len(group), "case_id": c["id"],
                   "correspondence": "Model/Publish.lean publishFn vs mirgen state_skeleton"}
            if "prog" in c:
                def still_l(src, sx, inputs):
                    r = run_c05([{"id": "s", "src": src, "sx": sx, "inputs": inputs, "times": 1}], nshards=1)["s"]
                    return r[0] == "ok" and r[4].startswith("diff")
                rep["shrunk"] = shrink_layout_case(c, still_l)
                rep["src"], rep["sx"] = rep["shrunk"]["src"], rep["shrunk"]["sx"]
            ctx.violation(f"the state layout the Lean model of mirgen publishes for dsp differs from the compiler's on {len(group)} programs, {label} "
                          f"(compiler {skel}, model {pi.get('model')}); smallest:\n{rep['src']}", rep)
    if t_bad and not failures:
        t_bad.sort(key=lambda f: len(f[0]["src"]))
        c, why, k = t_bad[0]
        ctx.violation(f"state semantics of the MIR: {why} ({len(t_bad)} programs) — Model/Mir.lean (vmStep on the MIR's state instructions) and the VM "
                      f"disagree about the accesses or the storage words; smallest:\n{c['src']}",
                      {"src": c["src"], "inputs": c["inputs"], "times": c["times"], "why": "mir-trace:" + why[:300], "case_id": c["id"],
                       "correspondence": "drv_mir trace vs VM hook records"}, found_input=False)
    if s_contra and not failures:
        s_contra.sort(key=lambda f: len(f[0]["src"]))
        c, why, st = s_contra[0]
        ctx.violation(f"static state check of the MIR: {why} ({len(s_contra)} programs): the MIR semantics (Model/Mir.lean), its dump or "
                      f"bytecodegen disagree about this program; smallest:\n{c['src']}",
                      {"src": c["src"], "inputs": c["inputs"], "times": c["times"], "why": "mir-static:" + why, "static": st,
                       "correspondence": "C05_mir_state_ok_sound vs recorded VM traces", "case_id": c["id"]}, found_input=False)
    if not proved and not failures and not layout_diffs:
        ctx.violation("proof obligation broken: " + "; ".join(ctx._broken), {"stage": "prove", "theorems": ctx._broken,
                      "lake": getattr(ctx, "_lake_errors", "")}, found_input=False)
    ctx.coverage.update({
        "evaluations": stats["evaluations"],
        "distinct_nontrivial": len(nontriv),
        "rule": "generated programs with stateful call trees (nested calls, tuple/scalar self, mem, delay) run %d samples; per dsp call the recorded VM accesses are judged by the Lean checker against the published dsp layout (`conforms`: every cell, for programs without state inside `if` arms; `conformsSel`: in-order sub-selection with self first/last, for the others), the cursor must be 0, and VM/WASM flat state words must be equal; non-trivial = at least one state access and a non-empty layout" % times,
        "samples": samples or [{"note": "replay mode"}],
        "traces_validated_against_impl": stats["evaluations"],
        "state_accesses_judged": stats["accesses_judged"],
        "layouts_nested": stats["layouts_nested"], "layouts_flat": stats["layouts_flat"],
        "failures": len(failures),
        "programs_judged_strict(no state in arms)": stats["programs_judged_strict"],
        "programs_judged_selected(state in arms)": stats["programs_judged_sel"],
        "of_which_with_a_skipped_access": stats["programs_sel_with_skipped_access"],
        "accesses_skipped_by_untaken_arms": stats["accesses_skipped_by_untaken_arms"],
        "mir_static_state_check": {
            "rule": "stateOkFn (Model/MirState.lean; soundness C05_mir_state_ok_sound) evaluated by drv_mir on every function of the MIR the "
                    "real compiler produced for every program of the run; `okSetChecked` must hold for the computed set; a program whose dsp "
                    "passes must have conforming VM traces (else violation); a failing function with conforming traces is a limitation",
            **dict(sstat), "limitations_samples": s_limits, "contradictions": len(s_contra),
            "kernel_evaluated_examples_are_current_compiler_output": example_state},
        "mir_run_vs_vm_state_records": {
            "rule": "per sample: the accesses to the global storage the Lean MIR run records (Model/Mir.lean: vmStep on the MIR's state instructions), "
                    "the cursor after the sample and EVERY word of the global storage, against the VM's hook records (text equality)",
            **dict(tstat), "disagreements": len(t_bad)},
        "published_layout_model_vs_compiler": {
            "rule": "publishedSk (publishFn P dsp) of Model/Publish.lean, computed from the program's S-expression, equals get_dsp_state_skeleton of the real compiler (text equality of the skeleton); non-trivial = at least 2 cells",
            "compared": stats["layouts_compared"],
            "distinct_with_ge2_cells": len(layout_nontriv),
            "outside_class_state_in_arms": stats["layout_outside_class_state_in_arms"], "agree": stats["layouts_agree"], "disagree": len(layout_diffs),
            "with_ge2_cells": stats["layout_ge2_cells"], "with_nested_children": stats["layout_nested"],
            "with_children_nested_twice": stats["layout_nested2"], "with_delay": stats["layout_with_delay"],
            "with_pruned_stateless_callee": stats["layout_with_pruned_stateless_child"],
            "in_class_of_the_theorems(noStatefulInArms,SitesUnique)": stats["layout_in_wide_class"],
            "nontrivial_and_in_class": stats["layout_nontrivial_in_wide_class"],
            "in_narrow_class(noStateInArms: no named call at all in an arm)": stats["layout_in_theorem_class"],
            "nontrivial_and_in_narrow_class": stats["layout_nontrivial_in_class"],
            "no_model_layout": {k[len("nomodel_"):]: v for k, v in stats.items() if k.startswith("nomodel_")},
            "samples": layout_samples,
        },
    })
    ctx.finish("proof")
