#!/usr/bin/env python3
"""Render MIR dumps (S-expressions of harness/src/bin/mir.rs) as Lean terms: lean/Mimium/Proofs/MirExample.lean.
usage: tools/mirlean.py            regenerate the file from corpus/MIR/*.mmm with target/debug/mir (the real compiler)
       tools/mirlean.py --check    exit 1 if the committed dumps (corpus/MIR/*.dump) differ from what the compiler produces now"""
import os, re, subprocess, sys
VERIF = os.path.dirname(os.path.dirname(os.path.abspath(__file__)))
EXAMPLES = [("exProg", "example"), ("exStateInArms", "state_in_arms")]


def tokenize(s):
    return re.findall(r"\(|\)|[^\s()]+", s)


def parse(toks, i=0):
    if toks[i] == "(":
        out, i = [], i + 1
        while toks[i] != ")":
            x, i = parse(toks, i)
            out.append(x)
        return out, i + 1
    return toks[i], i + 1


def opd(a):
    if a == "-":
        return ".none"
    if a == "?":
        return ".bad"
    if a[0] == "r":
        return f"(.reg {a[1:]})"
    if a[0] == "f":
        return f"(.fn {a[1:]})"
    if a[0] == "x":
        return f'(.ext "{a[1:]}")'
    raise ValueError(a)


def ctl(a, unit):
    if a == "-":
        return str(unit)
    return a[1:] if a[0] == "r" else "999999"


def args(xs):
    return "[" + ", ".join(f"({opd(o)}, {n})" for o, n in xs) + "]"


def ins(x, unit):
    k = x[0]
    if k == "k":
        return f".const {x[1]} 0x{x[2]}"
    if k == "al":
        return f".alloc {x[1]} {x[2]}"
    if k == "ld":
        return f".load {x[1]} {opd(x[2])} {x[3]}"
    if k == "st":
        return f".store {opd(x[1])} {opd(x[2])} {x[3]}"
    if k == "stf":
        return f".storeFn {opd(x[1])} {x[2]}"
    if k == "ge":
        return f".getElem {x[1]} {opd(x[2])} {x[3]} {x[4]}"
    if k in ("call", "calli"):
        return f".{'call' if k == 'call' else 'callInd'} {x[1]} {opd(x[2])} {args(x[4:])} {x[3]}"
    if k == "gg":
        return f".getGlobal {x[1]} {x[2]} {x[3]}"
    if k == "sg":
        return f".setGlobal {x[1]} {opd(x[2])} {x[3]}"
    if k == "sgf":
        return f".setGlobalFn {x[1]} {x[2]}"
    if k == "mkclo":
        return f".mkClosure {x[1]} {opd(x[2])}"
    if k == "closeh":
        return f".closeHeap {opd(x[1])}"
    if k == "cloneh":
        return f".cloneHeap {opd(x[1])}"
    if k == "closeup":
        return f".closeUp {opd(x[1])} [{', '.join(x[2:])}]"
    if k == "gu":
        return f".getUp {x[1]} {x[2]} {x[3]}"
    if k == "su":
        return f".setUp {x[1]} {opd(x[2])} {x[3]}"
    if k == "push":
        return f".push {x[1]}"
    if k == "pop":
        return f".pop {x[1]}"
    if k == "gs":
        return f".getState {x[1]} {x[2]}"
    if k == "rf":
        return f".retFeed {opd(x[1])} {x[2]}"
    if k == "mem":
        return f".mem {x[1]} {opd(x[2])}"
    if k == "dl":
        return f".delay {x[1]} {x[2]} {opd(x[3])} {opd(x[4])}"
    if k == "jif":
        return f".jmpIf {ctl(x[1], unit)} {x[2]} {x[3]} {x[4]}"
    if k == "jmp":
        return f".jmp ({x[1]})"
    if k == "phi":
        return f".phi {x[1]} {ctl(x[2], unit)} {ctl(x[3], unit)}"
    if k == "sw":
        cases = "[" + ", ".join(f"(({l}), {b})" for l, b in x[4:]) + "]"
        d = "none" if x[3] == "-" else f"(some {x[3]})"
        return f".switch {ctl(x[1], unit)} {cases} {d} {x[2]}"
    if k == "phis":
        return f".phiSwitch {x[1]} [{', '.join(ctl(a, unit) for a in x[2:])}]"
    if k == "ret":
        return f".ret {opd(x[1])} {x[2]}"
    if k == "un":
        return f".un .{x[1]} {x[2]} {opd(x[3])}"
    if k == "bin":
        return f".bin .{x[1]} {x[2]} {opd(x[3])} {opd(x[4])}"
    if k == "uw":
        return f".unionWrap {x[1]} {x[2]} {opd(x[3])} {x[4]} {x[5]}"
    if k == "ut":
        return f".unionTag {x[1]} {opd(x[2])}"
    if k == "uv":
        return f".unionVal {x[1]} {opd(x[2])} {x[3]}"
    if k == "nop":
        return ".nop"
    if k == "uns":
        return f'.uns {x[1]} "{x[2]}"'
    raise ValueError(k)


def sk(s):
    """F[a,b] / D3 / M1 / E1 -> Lean"""
    pos = 0

    def go():
        nonlocal pos
        c = s[pos]
        pos += 1
        if c in "DME":
            m = re.match(r"\d+", s[pos:])
            pos += len(m.group(0))
            return {"D": ".delay", "M": ".mem", "E": ".feed"}[c] + " " + m.group(0)
        assert c == "F" and s[pos] == "["
        pos += 1
        cs = []
        while s[pos] != "]":
            cs.append("(" + go() + ")")
            if s[pos] == ",":
                pos += 1
        pos += 1
        return ".fn [" + ", ".join(cs) + "]"
    return go()


def fn(x):
    _, _idx, label, upper, a, ups, skel, nregs, nret = x[:9]
    blocks = x[9:]
    unit = int(nregs)
    bs = ",\n      ".join("[" + ", ".join(ins(i, unit) for i in b[1:]) + "]" for b in blocks)
    up = "none" if upper == "-" else f"(some {upper})"
    nr = nret if nret != "-" else "0"
    return (f'  Fn.build "{label}" {up} [{", ".join(a[1:])}] [{", ".join(opd(o) for o in ups[1:])}] ({sk(skel)}) {nregs} {nr}\n     [{bs}]')


def render(name, dump):
    t, _ = parse(tokenize(dump))
    assert t[0] == "mir"
    out, names = "", []
    for f in t[2:]:
        fname = f"{name}_{re.sub(r'[^A-Za-z0-9_]', '_', f[2])}"
        names.append(fname)
        out += f"def {fname} : Fn :=\n{fn(f)}\n\n"
    return out + f"def {name} : Prog := ⟨{t[1]}, [{', '.join(names)}]⟩\n"


def dump_of(stem):
    src = open(os.path.join(VERIF, "corpus", "MIR", stem + ".mmm")).read()
    p = subprocess.run([os.path.join(VERIF, "target", "debug", "mir"), "--sx"], input=src, capture_output=True, text=True)
    return p.stdout.strip()


def main():
    check = "--check" in sys.argv
    stale = []
    out = ("import Mimium.Model.Mir\n/-! GENERATED by tools/mirlean.py from corpus/MIR/*.mmm through the real compiler (`harness/src/bin/mir.rs --sx`): the MIR of\n"
           "two shipped-size programs as Lean terms, for the kernel-evaluated non-vacuity examples of Props/C05, C03, C18.\n"
           "`./check C05` re-dumps the sources and reports whether these terms are still what the compiler produces. -/\nnamespace Mimium.Mir\nopen Mimium.StateTree\n\n")
    for name, stem in EXAMPLES:
        d = dump_of(stem)
        dp = os.path.join(VERIF, "corpus", "MIR", stem + ".dump")
        if check:
            if not os.path.exists(dp) or open(dp).read().strip() != d:
                stale.append(stem)
            continue
        open(dp, "w").write(d + "\n")
        out += f"/-- `corpus/MIR/{stem}.mmm` -/\n" + render(name, d) + "\n"
    if check:
        print("stale:" + ",".join(stale) if stale else "current")
        sys.exit(1 if stale else 0)
    out += "end Mimium.Mir\n"
    open(os.path.join(VERIF, "lean", "Mimium", "Proofs", "MirExample.lean"), "w").write(out)


if __name__ == "__main__":
    main()
