#!/usr/bin/env python3
"""Merge an agent branch: git merge, then resolve the append-only conflicts
(known_findings.jsonl, harness/Cargo.toml: keep both sides; tools/extract.py: HEAD version + the branch's new gen_* functions + calls)."""
import re, subprocess, sys, os
br = sys.argv[1]
def sh(c): return subprocess.run(c, shell=True, capture_output=True, text=True)
if sh("git status --porcelain --untracked-files=no").stdout.strip():
    # a dirty tree makes `git merge` abort and the final `git add -A && git commit` would then record the local edits as "merge"
    sh("git add -A && git commit -qm 'work in progress before merging %s'" % br)
r = sh(f"git merge --no-edit {br}")
print(r.stdout[-300:], r.stderr[-300:])
conf = sh("git diff --name-only --diff-filter=U").stdout.split()
for f in conf:
    if f in ("lean/lakefile.toml", "lean/Mimium.lean"):
        sh(f"git rm -q --cached {f}")
    elif f == "tools/extract.py":
        head = sh("git show HEAD:tools/extract.py").stdout
        theirs = sh(f"git show {br}:tools/extract.py").stdout
        have = set(re.findall(r"^def ([a-zA-Z_][a-zA-Z0-9_]*)\(", head, re.M))
        for n in re.findall(r"^def ([a-zA-Z_][a-zA-Z0-9_]*)\(", theirs, re.M):
            if n in have or n == "main":
                continue
            start = theirs.index(f"\ndef {n}(")
            rest = theirs[start + 1:]
            m = re.search(r"\ndef [a-zA-Z_][a-zA-Z0-9_]*\([^)]*\):\n", rest)     # next PYTHON def (Lean `def x : T` lines inside strings do not match)
            body = theirs[start:start + 1 + (m.start() if m else len(rest))]
            head = head.replace("\ndef main():", body.rstrip() + "\n\n\ndef main():", 1)
            if n.startswith("gen_"):
                calls = re.findall(r"    info\.update\(gen_[a-z0-9_]+\(\)\)\n", head)
                head = head.replace(calls[-1], calls[-1] + f"    info.update({n}())\n", 1)
        open("tools/extract.py", "w").write(head)
    elif f == "known_findings.jsonl":
        # three-way by line: HEAD's lines + the lines the branch ADDED since the merge base (keeping both sides of a
        # conflict would resurrect entries that HEAD deleted after the branch was created)
        base_rev = sh(f"git merge-base HEAD {br}").stdout.strip()
        base = set(sh(f"git show {base_rev}:{f}").stdout.splitlines())
        head = sh(f"git show HEAD:{f}").stdout.splitlines()
        theirs = sh(f"git show {br}:{f}").stdout.splitlines()
        added = [l for l in theirs if l not in base and l not in set(head)]
        import json as _json

        def key(l):
            try:
                d = _json.loads(l)
                return (d.get("property"), d.get("id"))
            except Exception:
                return None
        replaced = {key(l) for l in added if key(l)}
        theirs_set = set(theirs)
        kept = [l for l in head if not (key(l) in replaced and l in base)      # an entry the branch rewrote
                and not (l in base and l not in theirs_set)]                    # an entry the branch deleted
        open(f, "w").write("\n".join(kept + added) + "\n")
    elif f.startswith("tools/manifest.d/") and f.endswith(".json"):
        # key by key: the side that changed a key wins; both changed = HEAD's text + what the branch appended to the base
        import json as _j
        base_rev = sh(f"git merge-base HEAD {br}").stdout.strip()
        b, m, r = (_j.loads(sh(f"git show {rev}:{f}").stdout) for rev in (base_rev, "HEAD", br))
        out = {}
        for k in list(m) + [k for k in r if k not in m]:
            if k not in m:
                out[k] = r[k]
            elif r.get(k) == b.get(k):
                out[k] = m[k]
            elif m[k] == b.get(k):
                out[k] = r[k]
            else:
                bv, rv = str(b.get(k, "")), str(r[k])
                i = 0
                while i < min(len(bv), len(rv)) and bv[i] == rv[i]:
                    i += 1
                out[k] = str(m[k]) + " " + rv[i:]
        _j.dump(out, open(f, "w"), indent=1, ensure_ascii=False)
    else:
        s = open(f).read()
        s = re.sub(r"<<<<<<< [^\n]*\n(.*?)=======\n(.*?)>>>>>>> [^\n]*\n", lambda m: m.group(1) + m.group(2), s, flags=re.S)
        open(f, "w").write(s)
        if f.endswith(".py"):
            import ast as _ast
            try:
                _ast.parse(s)
            except SyntaxError as e:
                print("MERGE NEEDS HAND WORK (both sides kept, does not parse):", f, e)
        print("both sides of every conflict kept in", f, "- review it")
import ast
ast.parse(open("tools/extract.py").read())
print(sh("python3 tools/extract.py && python3 tools/mklake.py && python3 tools/mkmanifest.py && python3 tools/mkdesign.py && git add -A && git commit -qm 'merge %s' && echo merged" % br).stdout)
