#!/bin/sh
# usage: tools/confirm_seed.sh TAG "<demo cargo test args>"   e.g.  C03 "-p mimium-test --test c03_fractional_delay_test"
# Confirms a seeded change delivered in /tmp/sd/TAG/{repo,out}: (1) patch applies to a clean tree, (2) whole suite passes with it
# (demo files absent), (3) demo fails with it, (4) demo passes without it. Leaves the worktree clean (patch reverted, demo removed).
TAG=$1; DEMO=$2; R=/tmp/sd/$TAG/repo; O=/tmp/sd/$TAG/out
export CARGO_NET_OFFLINE=true CARGO_PROFILE_DEV_DEBUG=0 CARGO_PROFILE_TEST_DEBUG=0
cd $R || exit 2
git checkout -q -- . && git clean -fdq -e target
git apply --check $O/patch.diff || { echo "PATCH-DOES-NOT-APPLY"; exit 1; }
git apply $O/patch.diff
echo "== suite with change"; cargo test --workspace --offline --no-fail-fast -j 8 2>&1 | grep -E "^test result|FAILED|error(\[|:)" | awk '/test result/{p+=$4; f+=$6} !/test result/{print} END{print "passed",p,"failed",f}'
cp -r $O/demo/* $R/ 2>/dev/null; rm -f $R/RUN.md
echo "== demo with change (must FAIL)"; cargo test --offline -j 8 $DEMO 2>&1 | grep -E "^test result|^test .* (ok|FAILED)|error(\[|:)" | head -20
git apply -R $O/patch.diff
echo "== demo without change (must PASS)"; cargo test --offline -j 8 $DEMO 2>&1 | grep -E "^test result|^test .* (ok|FAILED)|error(\[|:)" | head -20
git checkout -q -- . && git clean -fdq -e target
