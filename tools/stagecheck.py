"""Shared by C09 and C10: run staged programs on the real compiler (VM / WASM outputs via `runprog`, syntax trees via the
`c09` harness binary) and on the Lean model (`drv_c09`)."""
import json, os, sys, re
sys.path.insert(0, os.path.join(os.path.dirname(os.path.abspath(__file__)), "gen"))
import coregen, stagegen
from vlib import *
import progcheck as pc


def _shards(items, n):
    n = max(1, min(n, len(items)))
    return [items[i::n] for i in range(n)]


def run_outputs(jobs, backends="vm", nshards=None):
    """jobs: list of (id, src, times, inputs). Returns id -> (vm, wasm) outcome strings (`-` if not requested)."""
    nshards = nshards or min(NCPU, max(1, len(jobs) // 16))

    def work(sh):
        inp = "".join(json.dumps({"id": i, "src": s, "times": t, "inputs": x, "backends": backends}) + "\n" for i, s, t, x in sh)
        p = run([os.path.join(BIN, "runprog")], input=inp, timeout=3600)
        res = {}
        for l in p.stdout.splitlines():
            f = l.split("\t")
            if len(f) >= 3:
                res[f[0]] = (f[1], f[2])
        for i, _, _, _ in sh:
            res.setdefault(i, ("harness-died rc=%s" % p.returncode,) * 2)
        return res
    out = {}
    for r in parallel(_shards(jobs, nshards), work, nproc=nshards):
        out.update(r)
    return out


def run_trees(jobs, nshards=None, fresh_process=False):
    """jobs: list of (id, src, mode) with mode expand|front|plain|stage0. Returns id -> (status, text, note)."""
    nshards = len(jobs) if fresh_process else (nshards or min(NCPU, max(1, len(jobs) // 16)))

    def work(sh):
        inp = "".join(json.dumps({"id": i, "src": s, "mode": m}) + "\n" for i, s, m in sh)
        p = run([os.path.join(BIN, "c09")], input=inp, timeout=3600)
        res = {}
        for l in p.stdout.splitlines():
            f = l.split("\t")
            if len(f) >= 3:
                res[f[0]] = (f[1], f[2], f[3] if len(f) > 3 else "")
        for i, _, _ in sh:
            res.setdefault(i, ("err", "harness-died rc=%s" % p.returncode, ""))
        return res
    out = {}
    for r in parallel(_shards(jobs, nshards), work, nproc=min(NCPU, nshards)):
        out.update(r)
    return out


def run_model(jobs, nshards=None):
    """jobs: list of (id, sx, times, inputs). Returns id -> (front tree, expanded tree | error, outputs | error)."""
    nshards = nshards or min(NCPU, max(1, len(jobs) // 64))

    def work(sh):
        inp = "".join(f"{i}\t{t}\t{coregen.inputs_field(x)}\t{sx}\n" for i, sx, t, x in sh)
        p = run([os.path.join(LEANBIN, "drv_c09")], input=inp, timeout=3600)
        res = {}
        for l in p.stdout.splitlines():
            f = l.split("\t")
            if len(f) >= 4:
                res[f[0]] = (f[1], f[2], f[3])
        for i, _, _, _ in sh:
            res.setdefault(i, ("driver-died", "driver-died", "driver-died rc=%s" % p.returncode))
        return res
    out = {}
    for r in parallel(_shards(jobs, nshards), work, nproc=nshards):
        out.update(r)
    return out


# ---- canonical trees --------------------------------------------------------------------------

def norm_none(t):
    """the real front end leaves `None` where a `let` has no continuation / an `if` no else; expansion writes `()` there"""
    return t.replace(" none)", " (tup))")


def parse_sx(s):
    toks = re.findall(r'\(|\)|"[^"]*"|[^\s()]+', s)
    pos = [0]

    def go():
        t = toks[pos[0]]
        pos[0] += 1
        if t == "(":
            xs = []
            while toks[pos[0]] != ")":
                xs.append(go())
            pos[0] += 1
            return xs
        return t
    return go()


def _mentions(x, name):
    if isinstance(x, list):
        return any(_mentions(y, name) for y in x)
    return x == name


def strip_blocks(t):
    """tree text -> nested lists with every `(block x)` replaced by x (a hand-written expansion has `{}` where the author
    put them; the comparison of shapes ignores them) and every `(feed v body)` whose variable is not used dropped
    (`self` is converted before expansion: when the only `self` of a function sits in argument code that the macro
    discards, the expanded function keeps an unused feed, which its hand-written expansion does not have)"""
    def go(x):
        if isinstance(x, list):
            if len(x) == 2 and x[0] == "block":
                return go(x[1])
            if len(x) == 2 and x[0] == "flt" and isinstance(x[1], str) and len(x[1]) == 16 and int(x[1], 16) >> 63:
                # a negative number lifted from the macro stage is a negative literal, which no source text can contain:
                # its hand-written expansion spells it `0.0 - x` (and negative zero `0.0 * (0.0 - 1.0)`), see stagegen.num_node
                zero, mag = ["flt", "0" * 16], "%016x" % (int(x[1], 16) & ((1 << 63) - 1))
                if mag == "0" * 16:
                    return ["app", ["var", "mult"], zero, ["app", ["var", "sub"], zero, ["flt", "3ff0000000000000"]]]
                return ["app", ["var", "sub"], zero, ["flt", mag]]
            if len(x) == 3 and x[0] == "feed" and not _mentions(x[2], x[1]):
                return go(x[2])
            return [go(y) for y in x]
        return x
    return go(parse_sx(norm_none(t)))


def norm_out(o):
    return pc.norm_impl(o)


def shrink_sprog(sp, pred, budget=150):
    """greedy minimisation of a staged program while pred(sp) holds: drop items, simplify bodies"""
    b = [budget]
    items = list(sp.items)
    progress = True
    while progress and b[0] > 0:
        progress = False
        for i in range(len(items)):
            if items[i][0] == "fn" and items[i][1].name == "dsp":
                continue
            q = stagegen.SProg(items[:i] + items[i + 1:])
            b[0] -= 1
            try:
                ok = pred(q)
            except Exception:
                ok = False
            if ok:
                items = q.items
                progress = True
                break
    for i in range(len(items)):
        if b[0] <= 0:
            break
        it = items[i]

        def rebuild(body, i=i, it=it):
            if it[0] == "macro":
                new = ("macro", stagegen.MFn(it[1].name, it[1].params, body))
            elif it[0] == "fn":
                f = it[1]
                new = ("fn", coregen.Fn(f.name, f.params, f.ptypes, f.ret, body, f.uses_self, f.stateful))
            else:
                new = ("g", it[1], body)
            return stagegen.SProg(items[:i] + [new] + items[i + 1:])

        def p2(q):
            try:
                return pred(q)
            except Exception:
                return False
        body = it[2] if it[0] == "g" else it[1].body
        nb = coregen.shrink_node(body, rebuild, p2, b)
        items = rebuild(nb).items
    return stagegen.SProg(items)
