#!/bin/sh
# soak: run quick checks of the given properties over a range of seeds; prints only non-OK results.
# usage: tools/soak.sh FROM TO C01 C02 …    (evidence files are restored to seed 1 afterwards)
cd "$(dirname "$0")/.."
from=$1; to=$2; shift 2
for s in $(seq $from $to); do
  for p in "$@"; do
    out=$(VERIF_SEED=$s ./check $p 2>&1 | grep -v '^KNOWN-FINDING' | tail -40)
    case "$out" in
      *"OK property=$p"*) ;;
      *) echo "== seed $s $p"; echo "$out" | cut -c1-400 ;;
    esac
  done
done
for p in "$@"; do VERIF_SEED=1 ./check $p >/dev/null 2>&1; done
echo soak-done
