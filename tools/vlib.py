"""Shared machinery of the /verif checks: stages prove / correspond / decide, evidence and replay writers.

Every check is `./check <ID> [--tier quick|thorough] [--replay file]`.
Stage 1 (prove):      regenerate lean/Mimium/Gen from /repo (translator), `lake build Mimium.Props.<ID> mmdriver`,
                      audit source for forbidden constructs and `#print axioms` against the allow-list.
Stage 2 (correspond): build the harness crate against /repo's current working tree (`--cfg mimium_verif`),
                      run implementation and Lean model on the same cases, canonicalise, diff.
Stage 3 (decide):     verdict, evidence file, replay file, VIOLATION / KNOWN-FINDING lines.
"""
import json, os, re, subprocess, sys, time, hashlib, shutil

VERIF = os.path.dirname(os.path.dirname(os.path.abspath(__file__)))
REPO = os.environ.get("VERIF_REPO", "/repo")
LEAN = os.path.join(VERIF, "lean")
HARNESS = os.path.join(VERIF, "harness")
TARGET = os.path.join(VERIF, "target")
BIN = os.path.join(TARGET, "debug")
LEANBIN = os.path.join(LEAN, ".lake", "build", "bin")
EVID = os.path.join(VERIF, "evidence")
REPLAYS = os.path.join(VERIF, "replays")
ALLOWED_AXIOMS = {"propext", "Classical.choice", "Quot.sound"}
FORBIDDEN = re.compile(r"\b(sorry|admit|native_decide|bv_decide|implemented_by|unsafe)\b|^\s*axiom\s|maxHeartbeats\s+0")
NCPU = os.cpu_count() or 4


def log(*a):
    print(*a, file=sys.stderr, flush=True)


def run(cmd, cwd=None, env=None, timeout=None, input=None, check=False):
    e = dict(os.environ)
    e["CARGO_NET_OFFLINE"] = "true"
    if env:
        e.update(env)
    t0 = time.time()
    p = subprocess.run(cmd, cwd=cwd, env=e, timeout=timeout, input=input, capture_output=True, text=True,
                       shell=isinstance(cmd, str))
    p.wall = time.time() - t0
    if check and p.returncode != 0:
        raise RuntimeError(f"command failed ({p.returncode}): {cmd}\n{p.stdout[-4000:]}\n{p.stderr[-4000:]}")
    return p


class Ctx:
    """State of one check run."""

    def __init__(self, pid, tier, seed):
        self.pid = pid
        self.tier = tier
        self.seed = seed
        self.t0 = time.time()
        self.violations = []        # (what, replay_path, found_input: bool)
        self.known = []             # strings
        self.proof = {}
        self.coverage = {}
        self.assumptions = []
        self.notes = []

    # ---- verdict helpers -------------------------------------------------
    def violation(self, what, replay_obj, found_input=True):
        os.makedirs(REPLAYS, exist_ok=True)
        h = hashlib.sha1(json.dumps(replay_obj, sort_keys=True).encode()).hexdigest()[:10]
        path = os.path.join(REPLAYS, f"{self.pid}-{h}.json")
        replay_obj = dict(replay_obj)
        replay_obj.setdefault("property", self.pid)
        replay_obj.setdefault("what", what)
        with open(path, "w") as f:
            json.dump(replay_obj, f, indent=1)
        self.violations.append((what, path, found_input))

    def known_finding(self, text):
        self.known.append(text)

    def finish(self, level="proof"):
        pend = getattr(self, "_pending_obligation", None)
        if pend is not None:
            self._pending_obligation = None
            if not any(found for _, _, found in self.violations):
                self.violation(pend[0], pend[1], found_input=False)
            else:
                self.notes.append("also: " + pend[0][:300])
        wall = time.time() - self.t0
        cov = dict(self.coverage)
        cov.update(self.proof)
        ev = {
            "property_id": self.pid,
            "tier": self.tier,
            "seed": self.seed,
            "level": level,
            "coverage": cov,
            "assumptions": self.assumptions,
            "wall_s": round(wall, 2),
            "violations": len(self.violations),
            "known_findings": self.known,
            "notes": self.notes,
        }
        os.makedirs(EVID, exist_ok=True)
        with open(os.path.join(EVID, f"{self.pid}.json"), "w") as f:
            json.dump(ev, f, indent=1)
        for k in self.known:
            print(f"KNOWN-FINDING: property={self.pid} {k}")
        for what, path, found in self.violations:
            tail = "" if found else " no-failing-input-found"
            print(f"VIOLATION property={self.pid} replay={path}{tail}")
            log(f"  violation: {what}")
        if self.violations:
            sys.exit(1)
        print(f"OK property={self.pid} tier={self.tier} wall={wall:.1f}s")
        sys.exit(0)


# ---------------------------------------------------------------------------
# known findings

def load_known(pid):
    out = []
    p = os.path.join(VERIF, "known_findings.jsonl")
    if os.path.exists(p):
        for line in open(p):
            line = line.strip()
            if not line.startswith("{"):
                continue        # `fixed: …` records and comments
            d = json.loads(line)
            if d.get("property") == pid and d.get("status", "open") == "open":
                out.append(d)
    return out


# ---------------------------------------------------------------------------
# stage 1: prove

def extract(ctx):
    """translator T: regenerate lean/Mimium/Gen/*.lean from /repo's current sources.
    A source shape the translator does not recognise is a broken obligation; the check then goes on with the last
    generated data and searches for a concrete failing input; if none is found the obligation itself is reported
    (`no-failing-input-found`) when the check finishes."""
    p = run([sys.executable, os.path.join(VERIF, "tools", "extract.py")], cwd=VERIF)
    if p.returncode != 0:
        ctx._pending_obligation = (
            "translator could not re-extract model data from /repo (source shape changed): " + p.stderr[-2000:],
            {"stage": "extract", "obligation": "tools/extract.py", "stderr": p.stderr[-4000:]})
    return True


_built = {}


def lake_build(targets):
    key = tuple(targets)
    p = run(["lake", "build"] + list(targets), cwd=LEAN, timeout=3600)
    return p


def prove(ctx, modules, drivers=None):
    """Build the Props module(s), check forbidden constructs, audit axioms. Returns True if all obligations hold."""
    t0 = time.time()
    pid = ctx.pid
    ok = True
    run([sys.executable, os.path.join(VERIF, "tools", "mklake.py")], cwd=VERIF)
    p = lake_build(list(modules) + (list(drivers) if drivers is not None else [f"drv_{pid.lower()}"]))
    if p.returncode != 0:
        # which theorem broke?
        errs = re.findall(r"error: (\S+?):(\d+):\d+: (.*)", p.stdout + p.stderr)
        ctx.proof.update({"obligations": 1, "discharged": 0, "checker_cmd": "lake build " + " ".join(modules),
                          "trusted_base": trusted_base()})
        ctx._lake_errors = (p.stdout + p.stderr)[-6000:]
        ctx._broken = [f"{f}:{l}: {m}" for f, l, m in errs[:10]] or ["lake build failed"]
        return False
    # forbidden constructs in all Lean sources (comments stripped)
    bad = []
    for root, _, files in os.walk(os.path.join(LEAN, "Mimium")):
        for fn in files:
            if fn.endswith(".lean"):
                src = strip_lean_comments(open(os.path.join(root, fn)).read())
                for i, line in enumerate(src.split("\n")):
                    if FORBIDDEN.search(line):
                        bad.append(f"{os.path.join(root, fn)}:{i+1}: {line.strip()[:100]}")
    if bad:
        ctx._broken = ["forbidden construct: " + b for b in bad[:10]]
        ctx.proof.update({"obligations": 1, "discharged": 0, "checker_cmd": "grep audit", "trusted_base": trusted_base()})
        return False
    theorems, axioms = [], {}
    os.makedirs(os.path.join(VERIF, "work", "audit"), exist_ok=True)
    for m in modules:
        path = os.path.join(LEAN, m.replace(".", "/") + ".lean")
        src = strip_lean_comments(open(path).read())
        names, stack = [], []
        for line in src.split("\n"):
            mm = re.match(r"\s*namespace\s+(\S+)", line)
            if mm:
                stack.append(mm.group(1))
                continue
            mm = re.match(r"\s*end\s+(\S+)", line)
            if mm and stack and stack[-1] == mm.group(1):
                stack.pop()
                continue
            mm = re.match(r"\s*(?:private\s+|protected\s+)?theorem\s+(\S+)", line)
            if mm:
                names.append(".".join(stack + [mm.group(1)]))
        theorems += names
        apath = os.path.join(VERIF, "work", "audit", m + ".lean")
        with open(apath, "w") as f:
            f.write(f"import {m}\n" + "".join(f"#print axioms {n}\n" for n in names))
        q = run(["lake", "env", "lean", apath], cwd=LEAN, timeout=1800)
        if q.returncode != 0:
            ctx._broken = [f"axiom audit of {m} failed: " + (q.stdout + q.stderr)[-1500:]]
            ctx.proof.update({"obligations": len(theorems), "discharged": 0, "checker_cmd": "lake env lean " + apath,
                              "trusted_base": trusted_base()})
            return False
        out = q.stdout.replace("\n", " ")
        for mm in re.finditer(r"'([^']+)' depends on axioms: \[([^\]]*)\]", out):
            axioms[mm.group(1)] = set(x.strip() for x in mm.group(2).split(",") if x.strip())
        for mm in re.finditer(r"'([^']+)' does not depend on any axioms", out):
            axioms[mm.group(1)] = set()
    discharged, broken = 0, []
    for t in theorems:
        short = t
        if short not in axioms:
            broken.append(f"theorem {t}: no `#print axioms` line (audit incomplete)")
        elif not axioms[short] <= ALLOWED_AXIOMS:
            broken.append(f"theorem {t}: depends on non-allowed axioms {sorted(axioms[short] - ALLOWED_AXIOMS)}")
        else:
            discharged += 1
    ctx.proof.update({
        "obligations": len(theorems),
        "discharged": discharged,
        "checker_cmd": "cd lean && lake build " + " ".join(modules) + " && lake env lean <Props file>  (axiom audit)",
        "trusted_base": trusted_base(),
        "theorems": [t.split(".")[-1] for t in theorems],
        "axioms_used": sorted(set().union(*axioms.values())) if axioms else [],
        "prove_wall_s": round(time.time() - t0, 1),
    })
    if broken:
        ctx._broken = broken
        return False
    return True


def leancheck(ctx, modules):
    """thorough tier: independent re-check of the compiled .olean files"""
    for m in modules:
        p = run(["lake", "env", "leanchecker", m], cwd=LEAN, timeout=3600)
        ctx.proof.setdefault("leanchecker", {})[m] = p.returncode
        if p.returncode != 0:
            ctx._broken = [f"leanchecker rejects {m}: {(p.stdout + p.stderr)[-1500:]}"]
            return False
    return True


def trusted_base():
    return [
        "Lean 4.33.0 kernel",
        "axioms: propext, Classical.choice, Quot.sound (audited per theorem; nothing else accepted; no native_decide)",
        "hand-written Lean models under lean/Mimium/Model (tied to /repo by the correspondence stage of this check)",
        "tools/extract.py (constants/tables re-extracted from /repo on every run)",
        "harness crate /verif/harness + Lean compiler/runtime for the executable side of the models",
        "rustc, cargo",
    ]


def strip_lean_comments(s):
    out, i, depth = [], 0, 0
    n = len(s)
    while i < n:
        if s.startswith("/-", i):
            depth += 1
            i += 2
        elif depth and s.startswith("-/", i):
            depth -= 1
            i += 2
        elif depth:
            if s[i] == "\n":
                out.append("\n")
            i += 1
        elif s.startswith("--", i):
            while i < n and s[i] != "\n":
                i += 1
        elif s[i] == '"':
            j = i + 1
            while j < n and s[j] != '"':
                j += 2 if s[j] == "\\" else 1
            out.append('""')
            i = j + 1
        else:
            out.append(s[i])
            i += 1
    return "".join(out)


# ---------------------------------------------------------------------------
# stage 2: harness

def build_harness(ctx, extra_bins=(), bins=None):
    t0 = time.time()
    lock = os.path.join(HARNESS, "Cargo.lock")
    if not os.path.exists(lock):
        shutil.copy(os.path.join(REPO, "Cargo.lock"), lock)
    env = {"RUSTFLAGS": "--cfg mimium_verif", "CARGO_TARGET_DIR": TARGET}
    # ALL binaries, whatever the caller names: several checks also run another property's binary (C19 takes its solo
    # references from `c15`, the program-level checks use `runprog`), and a binary left over from an earlier build of
    # /repo would silently answer for a tree that no longer exists.  With nothing changed this costs ~1 s.
    p = run(["cargo", "build", "--offline", "--quiet", "--bins"], cwd=HARNESS, env=env, timeout=3600)
    ctx.coverage["harness_build_s"] = round(time.time() - t0, 1)
    if p.returncode != 0:
        ctx.violation("harness does not build against /repo's current tree (API used by the correspondence changed): "
                      + p.stderr[-1500:],
                      {"stage": "build-harness", "correspondence": "harness build", "stderr": p.stderr[-6000:]},
                      found_input=False)
        return False
    return True


def mmh(pid, args, input=None, timeout=3600, env=None):
    """run the harness binary of property `pid` (real code)"""
    return run([os.path.join(BIN, pid.lower())] + list(args), input=input, timeout=timeout, env=env)


def driver(pid, args=(), input=None, timeout=3600):
    """run the Lean model driver of property `pid`"""
    return run([os.path.join(LEANBIN, "drv_" + pid.lower())] + list(args), input=input, timeout=timeout)


def run_isolated(binary, items, timeout=3600):
    """items: list of (id, input_line). Runs `binary` over them; when the process dies (abort / segfault / stack overflow)
    the death is attributed to the first item without an answer and the rest continues in a fresh process.
    Returns dict id -> list of output fields after the id (or ["harness-died …"])."""
    res, todo = {}, list(items)
    while todo:
        p = run([binary], input="".join(l if l.endswith("\n") else l + "\n" for _, l in todo), timeout=timeout)
        for l in p.stdout.splitlines():
            f = l.split("\t")
            if len(f) >= 2 and f[0] not in res:
                res[f[0]] = f[1:]
        missing = [(i, l) for i, l in todo if i not in res]
        if not missing:
            break
        res[missing[0][0]] = ["harness-died rc=%s %s" % (p.returncode, p.stderr[-200:].replace("\n", " ").replace("\t", " "))]
        todo = missing[1:]
    return res


def parallel(jobs, fn, nproc=None):
    """run fn(job) in a thread pool (jobs spawn subprocesses)"""
    from concurrent.futures import ThreadPoolExecutor
    with ThreadPoolExecutor(max_workers=nproc or NCPU) as ex:
        return list(ex.map(fn, jobs))


def argparse_common():
    import argparse
    ap = argparse.ArgumentParser()
    ap.add_argument("pid")
    ap.add_argument("--tier", default=os.environ.get("VERIF_TIER", "quick"))
    ap.add_argument("--replay", default=None)
    a = ap.parse_args()
    seed = int(os.environ.get("VERIF_SEED", "1"))
    return a, seed
