#!/usr/bin/env python3
"""Run checks against a patched copy of /repo WITHOUT touching /repo (seeded-change evaluation).

usage: tools/mutrun.py <patch.diff> <PID> [<PID> …]   [--keep]

A scratch worktree of /repo gets the patch; a scratch copy of /verif gets its harness path dependencies and
VERIF_REPO pointed at that worktree (own cargo target dir seeded from /verif/target so that only the touched crates
rebuild). Prints each check's verdict lines. Everything is removed afterwards (unless --keep)."""
import os, subprocess, sys, shutil, re, time

VERIF = os.path.dirname(os.path.dirname(os.path.abspath(__file__)))


def sh(cmd, **kw):
    return subprocess.run(cmd, shell=True, capture_output=True, text=True, **kw)


def main():
    args = [a for a in sys.argv[1:] if not a.startswith("--")]
    keep = "--keep" in sys.argv
    patch, pids = os.path.abspath(args[0]), args[1:]
    tag = "%d_%d" % (os.getpid(), int(time.time()) % 100000)
    root = f"/tmp/mr/{tag}"
    os.makedirs(root, exist_ok=True)
    mrepo, mverif = f"{root}/repo", f"{root}/verif"
    try:
        r = sh(f"git -C /repo worktree add --detach {mrepo} HEAD")
        if r.returncode != 0:
            print("worktree failed:", r.stderr)
            return 2
        r = sh(f"git -C {mrepo} apply {patch}")
        if r.returncode != 0:
            print("patch does not apply:", r.stderr)
            return 2
        sh(f"rsync -a --exclude .git --exclude work --exclude replays --exclude 'target/debug/incremental' {VERIF}/ {mverif}/")
        for fn in ("harness/Cargo.toml",):
            p = os.path.join(mverif, fn)
            s = open(p).read().replace('"/repo/', f'"{mrepo}/')
            open(p, "w").write(s)
        cfg = os.path.join(mverif, "harness/.cargo/config.toml")
        if os.path.exists(cfg):
            open(cfg, "w").write(open(cfg).read().replace("/verif/target", f"{mverif}/target"))
        env = dict(os.environ, VERIF_REPO=mrepo, CARGO_NET_OFFLINE="true")
        rc = 0
        for pid in pids:
            t0 = time.time()
            p = subprocess.run(["./check", pid, "--tier", "quick"], cwd=mverif, env=env, capture_output=True, text=True)
            lines = [l for l in (p.stdout + p.stderr).splitlines() if l.startswith(("VIOLATION", "OK ", "  violation"))]
            print(f"== {pid} rc={p.returncode} ({time.time()-t0:.0f}s)")
            for l in lines[:6]:
                print("   " + l[:400])
            if p.returncode not in (0, 1):
                print((p.stdout + p.stderr)[-1500:])
            rc = max(rc, p.returncode)
        return rc
    finally:
        if not keep:
            sh(f"git -C /repo worktree remove --force {mrepo}")
            shutil.rmtree(root, ignore_errors=True)
            sh("git -C /repo worktree prune")


if __name__ == "__main__":
    sys.exit(main())
