"""Grammar-based generator of programs that create closures, higher-order calls, boxed recursive variants and
scheduled tasks inside `dsp` (property C12).  No reference semantics is needed: the judge looks at object counts and
refcount traffic only.

A program is a list of *units* placed in `dsp`; every unit is one construct instance (tagged with its construct
class) wrapped 0..2 times (helper function / `if` arm / body of a directly called lambda).  Every random choice
comes from one splitmix64 state, so a case replays from (seed, index, profile); `shrink` drops units and wrappers.

Construct classes (tag -> what the pinned tree does with it, see known_findings.jsonl C12-K*):
  local0      non-capturing closure bound by `let` and called                     balanced
  direct      capturing lambda called in place                                    balanced
  pipe        capturing lambda on the right of `|>`                               balanced
  gcall       call of a closure that lives in a global                            balanced
  gcounter    call of a global closure that mutates its captured variable         balanced
  enum        non-recursive variant constructed and matched                       balanced
  leafbox     one-cell boxed variant bound and dropped                            balanced
  tupbox      one-cell boxed variant inside a let-bound tuple next to plain elements   balanced
  recbox      one-cell boxed variant as a field of a let-bound record next to plain fields balanced
  embed       let-bound value of a recursive variant type (payload elements of 1..3 words before / between / after the
              recursive references) embedded into other constructors in nested blocks, never matched or passed     balanced
  letcap      capturing closure bound by `let`                                    K1 leaks a closure per execution
  fnarg       function value passed as an argument                                K2 leaks closure + heap wrapper / refcount drift
  fnret       function value returned from a function (also inside a tuple)       K3
  box         boxed recursive variant with >= 2 cells, or passed / matched / returned   K4
  sched       closure or function scheduled with `@` every sample                 K5
"""
import sys, os
sys.path.insert(0, os.path.dirname(os.path.abspath(__file__)))
from coregen import Rng

BALANCED_TAGS = ["local0", "direct", "pipe", "gcall", "gcounter", "enum", "leafbox", "tupbox", "recbox", "embed"]
LEAKY_TAGS = ["letcap", "fnarg", "fnret", "box", "sched"]
CONSTS = ["0.5", "1.0", "2.0", "3.0", "0.25", "1.5", "4.0", "10.0"]

PRELUDE = {
    "hof": "fn hof(f:(float)->float, y){\n  f(y*2.0)\n}\n",
    "hof2": "fn hof2(f:(float)->float, g:(float)->float, y){\n  f(y) + g(y)\n}\n",
    "twice": "fn twice(f:(float)->float, y){\n  f(f(y))\n}\n",
    "named": "fn named(y){\n  y*3.0 + 1.0\n}\n",
    "mk": "fn mk(a){\n  |x| { x + a }\n}\n",
    "mk2": "fn mk2(a, b){\n  let c = a * b\n  |x| { x * a + c }\n}\n",
    "mkpair": "fn mkpair(a){\n  let f = |x| { x + a }\n  let g = |x| { x * a }\n  (f, g)\n}\n",
    "mkcounter": "fn mkcounter(step){\n  let x = 0.0\n  | | {\n    x = x + step\n    x\n  }\n}\n",
    "List": "type rec List = Nil | Cons(float, List)\n",
    "sum": "fn sum(list: List) -> float {\n  match list {\n    Nil => 0.0,\n    Cons(head, tail) => head + sum(tail)\n  }\n}\n",
    "len": "fn len(list: List) -> float {\n  match list {\n    Nil => 0.0,\n    Cons(_, tail) => 1.0 + len(tail)\n  }\n}\n",
    "mklist": "fn mklist(a) -> List {\n  Cons(a, Cons(a + 1.0, Nil))\n}\n",
    "Tree": "type rec Tree = Leaf(float) | Node(Tree, Tree)\n",
    "tsum": "fn tsum(tree: Tree) -> float {\n  match tree {\n    Leaf(value) => value,\n    Node(left, right) => tsum(left) + tsum(right)\n  }\n}\n",
    "Option": "type rec Option = Some(float) | None\n",
    "unwrap_or": "fn unwrap_or(opt: Option, default: float) -> float {\n  match opt {\n    Some(value) => value,\n    None => default\n  }\n}\n",
    "E": "type E = One(float) | Two(float)\n",
    "etest": "fn etest(e){\n  match e {\n    One(v) => v*1.0,\n    Two(v) => v*2.0\n  }\n}\n",
    "rep": "fn rep(n, f:(float)->float){\n  if (n > 0.0) {\n    rep(n - 1.0, f)\n  } else {\n    f(1.0)\n  }\n}\n",
    "compose": "fn compose(f:(float)->float, g:(float)->float){\n  |x| { f(g(x)) }\n}\n",
    # (known defect C12-X2: variables bound by a match arm stay visible after the match and shadow functions — keep
    #  every pattern variable of the generated programs distinct from every function name)
    "tailof": "fn tailof(l: List) -> List {\n  match l {\n    Nil => Nil,\n    Cons(tlh, tlt) => tlt\n  }\n}\n",
    "gacc": "let gacc = 0.0\n",
    "bump": "fn bump(){\n  gacc = gacc + 1.0\n}\n",
}
PRELUDE_ORDER = ["List", "Tree", "E", "Option", "unwrap_or", "gacc", "hof", "hof2", "twice", "named", "mk", "mk2", "mkpair", "mkcounter", "sum", "len",
                 "mklist", "tsum", "etest", "bump", "rep", "compose", "tailof"]
DEPS = {"sum": ["List"], "len": ["List"], "mklist": ["List"], "tsum": ["Tree"], "etest": ["E"], "bump": ["gacc"], "tailof": ["List"], "unwrap_or": ["Option"]}


class Unit:
    """one construct instance: `lines` (statements, may mention {up} = a float variable in scope and {arg}) and the
    name of the float variable holding its result"""

    def __init__(self, tag, variant, lines, res, needs=(), globals_=(), wrappers=(), sched=False, extra=(), decls=()):
        self.tag, self.variant, self.lines, self.res = tag, variant, list(lines), res
        self.needs, self.globals, self.wrappers, self.sched = list(needs), list(globals_), list(wrappers), sched
        self.extra = list(extra)
        self.decls = list(decls)

    def copy(self, **kw):
        u = Unit(self.tag, self.variant, self.lines, self.res, self.needs, self.globals, self.wrappers, self.sched, self.extra, self.decls)
        for k, v in kw.items():
            setattr(u, k, v)
        return u


def make_unit(r, n, tags):
    """construct instance number n; variables are suffixed with n. `u{n}` is a float in scope (the 'upvalue')."""
    tag = r.pick(tags)
    c1, c2 = r.pick(CONSTS), r.pick(CONSTS)
    up, arg, v = f"u{n}", r.pick([f"u{n}", c1, "now"]), f"v{n}"
    calls = r.below(3)

    def callsum(f, k, zero_arity=False):
        a = "" if zero_arity else arg
        return " + ".join([f"{f}({a})"] * k) if k else c2

    if tag == "local0":
        var = r.pick(["let", "let", "two-args", "stateful", "chain"])
        if var == "two-args":
            return Unit(tag, var, [f"let f{n} = |x, y| {{ x*{c1} + y }}", f"let {v} = f{n}({arg}, {up})"], v)
        if var == "stateful":
            return Unit(tag, var, [f"let f{n} = | | {{ self + {c1} }}", f"let {v} = f{n}()"], v)
        if var == "chain":
            return Unit(tag, var, [f"let f{n} = |x| {{ x*{c1} }}", f"let g{n} = |y| {{ y + {c2} }}", f"let {v} = g{n}(f{n}({arg}))"], v)
        body = r.pick([f"x*{c1}", f"x + {c2}", f"x*x + {c1}"])
        return Unit(tag, "let", [f"let f{n} = |x| {{ {body} }}", f"let {v} = {callsum(f'f{n}', max(1, calls))}"], v)
    if tag == "direct":
        var = r.pick(["call", "call", "nested", "if-both", "calls-global", "mem"])
        if var == "nested":
            return Unit(tag, var, [f"let {v} = (|x| {{ (|y| {{ y + x*{up} }})({c1}) }})({arg})"], v)
        if var == "if-both":
            return Unit(tag, var, [f"let {v} = if ({up} > 2.0) {{ (|x| {{ x*{up} }})({arg}) }} else {{ (|x| {{ x + {up} }})({c1}) }}"], v)
        if var == "calls-global":
            return Unit(tag, var, [f"let {v} = (|q| {{ G{n}(q) + {up} }})({arg})"], v, needs=["mk"], globals_=[f"let G{n} = mk({c1})"], extra=["gcall"])
        if var == "mem":
            return Unit(tag, var, [f"let {v} = (|x| {{ mem(x) + {up} }})({arg})"], v)
        body = r.pick([f"x*{up}", f"x + {up}*{c1}", f"{up} - x"])
        return Unit(tag, "call", [f"let {v} = (|x| {{ {body} }})({arg})"], v)
    if tag == "pipe" and r.chance(1, 3):
        return Unit(tag, "chain", [f"let {v} = {arg} |> |x| {{ x + {up} }} |> |y| {{ y * {up} }}"], v)
    if tag == "pipe":
        return Unit(tag, "pipe", [f"let {v} = {arg} |> |x| {{ x + {up} }}"], v)
    if tag == "gcall":
        k = r.pick(["mk", "mk2"])
        g = f"G{n}"
        init = f"let {g} = mk({c1})" if k == "mk" else f"let {g} = mk2({c1}, {c2})"
        return Unit(tag, k, [f"let {v} = {callsum(g, max(1, calls))}"], v, needs=[k], globals_=[init])
    if tag == "gcounter":
        g = f"G{n}"
        return Unit(tag, "counter", [f"let {v} = {g}()"], v, needs=["mkcounter"], globals_=[f"let {g} = mkcounter({c1})"])
    if tag == "enum" and r.chance(1, 3):
        return Unit(tag, "option", [f"let o{n} = Some({arg})", f"let {v} = unwrap_or(o{n}, {c1}) + unwrap_or(None, {c2})"], v, needs=["unwrap_or"])
    if tag == "enum":
        ctor = r.pick(["One", "Two"])
        return Unit(tag, ctor, [f"let {v} = etest({ctor}({arg}))"], v, needs=["etest"])
    if tag == "leafbox":
        return Unit(tag, "unused", [f"let l{n} = Cons({arg}, Nil)", f"let {v} = {up}"], v, needs=["List"])
    if tag == "tupbox":
        # a one-cell boxed value inside a TUPLE bound by `let` and dropped at scope exit: plain elements before, between
        # and after the managed one (the release walks the tuple's elements)
        shape = r.pick(["fb", "bf", "ffb", "fbf", "bff", "fbfb"])
        elems = [(f"Cons({arg}, Nil)" if ch == "b" else r.pick([c1, c2, up])) for ch in shape]
        first_f = shape.index("f")
        return Unit(tag, shape, [f"let t{n} = ({', '.join(elems)})", f"let {v} = t{n}.{first_f} + {up}"], v, needs=["List"])
    if tag == "recbox":
        # the same inside a RECORD bound by `let`: a boxed field next to plain fields, in every field order (fields are stored
        # sorted by name; seeded C12e: `contains_boxed` of a record asked ALL fields to be boxed, so a mixed record was never released)
        shape = r.pick(["fb", "bf", "ffb", "fbf", "bff", "bb"])
        names = r.pick([["amp", "notes", "zed", "gain"], ["notes", "gain", "amp", "q"], ["z", "y", "x", "w"]])[:len(shape)]
        elems = [f"{nm} = " + (f"Cons({arg}, Nil)" if ch == "b" else r.pick([c1, c2, up])) for nm, ch in zip(names, shape)]
        plain = [nm for nm, ch in zip(names, shape) if ch == "f"]
        use = f"r{n}.{plain[0]} + {up}" if plain else up
        return Unit(tag, shape, [f"let r{n} = {{{', '.join(elems)}}}", f"let {v} = {use}"], v, needs=["List"])
    if tag == "embed":
        return make_embed_unit(r, n, tag, up, arg, v)
    if tag == "box" and r.chance(2, 5):
        return make_embed_unit(r, n, tag, up, arg, v)
    if tag == "letcap":
        var = r.pick(["call", "nocall", "mut", "two-upvalues", "nested", "tuple-local", "counter"])
        if var == "tuple-local":
            return Unit(tag, var, [f"let t{n} = (|x| {{ x + {up} }}, {c1})", f"let f{n} = t{n}.0", f"let {v} = f{n}({arg}) + t{n}.1"], v)
        if var == "counter":
            return Unit(tag, var, [f"let m{n} = 0.0", f"let f{n} = | | {{", f"  m{n} = m{n} + 1.0", f"  m{n}", "}", f"let {v} = f{n}() + f{n}()"], v)
        if var == "call":
            return Unit(tag, var, [f"let f{n} = |x| {{ x*{up} }}", f"let {v} = {callsum(f'f{n}', max(1, calls))}"], v)
        if var == "nocall":
            return Unit(tag, var, [f"let f{n} = |x| {{ x*{up} }}", f"let {v} = {up}"], v)
        if var == "mut":
            return Unit(tag, var, [f"let m{n} = {up}", f"let f{n} = | | {{", f"  m{n} = m{n} + {c1}", f"  m{n}", "}",
                                   f"let {v} = {callsum(f'f{n}', max(1, calls), True)}"], v)
        if var == "two-upvalues":
            return Unit(tag, var, [f"let w{n} = {up} + {c1}", f"let f{n} = |x| {{ x*{up} + w{n} }}", f"let {v} = f{n}({arg})"], v)
        return Unit(tag, var, [f"let f{n} = |x| {{ x*{up} }}", f"let g{n} = |y| {{ f{n}(y) + {c1} }}", f"let {v} = g{n}({arg})"], v)
    if tag == "fnarg":
        var = r.pick(["lambda", "named", "local", "global", "two", "twice", "recursive"])
        if var == "recursive":
            return Unit(tag, var, [f"let {v} = rep({r.pick(['1.0', '2.0', '3.0'])}, |y| {{ y + {up} }})"], v, needs=["rep"])
        if var == "lambda":
            return Unit(tag, var, [f"let {v} = hof(|y| {{ y*{up} }}, {arg})"], v, needs=["hof"])
        if var == "named":
            return Unit(tag, var, [f"let {v} = hof(named, {arg})"], v, needs=["hof", "named"])
        if var == "local":
            return Unit(tag, var, [f"let f{n} = |x| {{ x + {c1} }}", f"let {v} = hof(f{n}, {arg})"], v, needs=["hof"])
        if var == "global":
            return Unit(tag, var, [f"let {v} = hof(G{n}, {arg})"], v, needs=["hof", "mk"], globals_=[f"let G{n} = mk({c1})"])
        if var == "two":
            return Unit(tag, var, [f"let {v} = hof2(|y| {{ y*{up} }}, named, {arg})"], v, needs=["hof2", "named"])
        return Unit(tag, var, [f"let {v} = twice(|y| {{ y + {up} }}, {arg})"], v, needs=["twice"])
    if tag == "fnret":
        var = r.pick(["call", "let", "pair", "mk2", "if-arms", "compose", "global-reassign"])
        if var == "if-arms":
            return Unit(tag, var, [f"let g{n} = if ({up} > 2.0) {{ mk({c1}) }} else {{ mk({c2}) }}", f"let {v} = g{n}({arg})"], v, needs=["mk"])
        if var == "compose":
            return Unit(tag, var, [f"let g{n} = compose(|x| {{ x + {up} }}, |y| {{ y * {c1} }})", f"let {v} = g{n}({arg})"], v, needs=["compose"],
                        extra=["fnarg"])
        if var == "global-reassign":
            return Unit(tag, var, [f"G{n} = mk({up})", f"let {v} = G{n}({arg})"], v, needs=["mk"], globals_=[f"let G{n} = mk({c1})"])
        if var == "call":
            return Unit(tag, var, [f"let {v} = mk({up})({arg})"], v, needs=["mk"])
        if var == "let":
            return Unit(tag, var, [f"let g{n} = mk({up})", f"let {v} = {callsum(f'g{n}', max(1, calls))}"], v, needs=["mk"])
        if var == "pair":
            return Unit(tag, var, [f"let (p{n}, q{n}) = mkpair({up})", f"let {v} = p{n}({arg}) + q{n}({c1})"], v, needs=["mkpair"])
        return Unit(tag, var, [f"let g{n} = mk2({up}, {c1})", f"let {v} = g{n}({arg})"], v, needs=["mk2"])
    if tag == "box":
        var = r.pick(["sum1", "sum2", "two-unused", "match", "ret", "shared", "tree", "global", "tail", "captured", "global-replace"])
        if var == "tail":
            return Unit(tag, var, [f"let l{n} = Cons({arg}, Cons({c1}, Cons({c2}, Nil)))", f"let {v} = sum(tailof(l{n}))"], v, needs=["sum", "tailof"])
        if var == "captured":
            return Unit(tag, var, [f"let l{n} = Cons({arg}, Nil)", f"let f{n} = | | {{ sum(l{n}) }}", f"let {v} = f{n}()"], v, needs=["sum"],
                        extra=["letcap"])
        if var == "global-replace":
            return Unit(tag, var, [f"GL{n} = Cons({arg}, Nil)", f"let {v} = sum(GL{n})"], v, needs=["sum"], globals_=[f"let GL{n} = Cons({c1}, Nil)"])
        if var == "sum1":
            return Unit(tag, var, [f"let l{n} = Cons({arg}, Nil)", f"let {v} = sum(l{n})"], v, needs=["sum"])
        if var == "sum2":
            return Unit(tag, var, [f"let l{n} = Cons({arg}, Cons({c1}, Cons({c2}, Nil)))", f"let {v} = sum(l{n})"], v, needs=["sum"])
        if var == "two-unused":
            return Unit(tag, var, [f"let l{n} = Cons({arg}, Cons({c1}, Nil))", f"let {v} = {up}"], v, needs=["List"])
        if var == "match":
            return Unit(tag, var, [f"let l{n} = Cons({arg}, Nil)", f"let {v} = match l{n} {{", "  Nil => 0.0,", f"  Cons(hd{n}, rest{n}) => hd{n}", "}"], v,
                        needs=["List"])
        if var == "ret":
            return Unit(tag, var, [f"let l{n} = mklist({arg})", f"let {v} = len(l{n})"], v, needs=["mklist", "len"])
        if var == "shared":
            return Unit(tag, var, [f"let l{n} = Cons({arg}, Cons({c1}, Nil))", f"let {v} = sum(l{n}) + len(l{n})"], v, needs=["sum", "len"])
        if var == "tree":
            return Unit(tag, var, [f"let s{n} = Node(Leaf({arg}), Leaf({c1}))", f"let t{n} = Node(Leaf({c2}), s{n})", f"let {v} = tsum(t{n})"], v,
                        needs=["tsum"])
        return Unit(tag, var, [f"let {v} = sum(GL{n})"], v, needs=["sum"], globals_=[f"let GL{n} = Cons({c1}, Cons({c2}, Nil))"])
    if tag == "sched":
        var = r.pick(["closure", "global-fn", "later"])
        if var == "closure":
            return Unit(tag, var, [f"let t{n} = | | {{ {up} + {c1} }}", f"t{n}@(now + 1.0)", f"let {v} = {up}"], v, sched=True)
        if var == "global-fn":
            return Unit(tag, var, ["bump@(now + 1.0)", f"let {v} = gacc"], v, needs=["bump"], sched=True)
        return Unit(tag, var, [f"let t{n} = | | {{ {up} * {c1} }}", f"t{n}@(now + {r.pick(['2.0', '3.0', '5.0'])})", f"let {v} = {up}"], v, sched=True)
    raise ValueError(tag)


# ---- recursive variant types with multi-word payload elements ------------------------------------------------------
ELEM_KINDS = ["f", "p2", "p3", "r2"]      # float | (float,float) | ((float,float),float) | {x:float, y:float}


def rec_type(r, n):
    """random `type rec T{n} = L{n} | N{n}(elems…)`: 1..2 recursive references, 1..3 data elements of 1..3 words each,
    in random order; returns (decl text incl. a recursive sum function, elems)"""
    elems = ["R"] * (1 + r.below(2)) + [r.pick(ELEM_KINDS) for _ in range(1 + r.below(3))]
    # shuffle (Fisher-Yates on the splitmix stream)
    for i in range(len(elems) - 1, 0, -1):
        j = r.below(i + 1)
        elems[i], elems[j] = elems[j], elems[i]
    if all(e in ("R", "f") for e in elems) and r.chance(5, 6):
        # make sure most types have an element wider than one word
        k = [i for i, e in enumerate(elems) if e == "f"]
        elems[k[0]] = r.pick(["p2", "p3", "r2"])
    ty = {"f": "float", "p2": "(float, float)", "p3": "((float, float), float)", "r2": "{x:float, y:float}", "R": f"T{n}"}
    decl = f"type rec T{n} = L{n} | N{n}(" + ", ".join(ty[e] for e in elems) + ")\n"
    reads = []
    for i, e in enumerate(elems):
        reads.append({"f": f"e{i}", "p2": f"e{i}.0 + e{i}.1", "p3": f"e{i}.1", "r2": f"e{i}.x + e{i}.y", "R": f"sum{n}(e{i})"}[e])
    decl += (f"fn sum{n}(v: T{n}) -> float {{\n  match v {{\n    L{n} => 0.0,\n    N{n}(" + ", ".join(f"e{i}" for i in range(len(elems)))
             + ") => " + " + ".join(reads) + "\n  }\n}\n")
    return decl, elems


def rec_value(r, n, elems, recs):
    """constructor application; `recs` supplies the expressions for the recursive positions"""
    it = iter(recs)
    lit = lambda: r.pick(CONSTS)
    args = []
    for e in elems:
        args.append({"f": lambda: lit(), "p2": lambda: f"({lit()}, {lit()})", "p3": lambda: f"(({lit()}, {lit()}), {lit()})",
                     "r2": lambda: f"{{x = {lit()}, y = {lit()}}}", "R": lambda: next(it)}[e]())
    return f"N{n}(" + ", ".join(args) + ")"


def make_embed_unit(r, n, tag, up, arg, v):
    decl, elems = rec_type(r, n)
    nrec = elems.count("R")
    leaf = f"L{n}"
    s0 = rec_value(r, n, elems, [leaf] * nrec)
    emb = lambda x: rec_value(r, n, elems, [x if (i == 0 or r.chance(1, 2)) else leaf for i in range(nrec)])
    if tag == "embed":
        var = r.pick(["once", "once", "twice", "nested", "deep-original"])
    else:
        var = r.pick(["read-after", "read-after", "read-before-and-after", "read-inner-and-after", "pass-after"])
    lines = [f"let s{n} = {s0}"]
    if var == "deep-original":
        lines = [f"let s0{n} = {s0}", f"let s{n} = {emb(f's0{n}')}"]
    if var == "read-before-and-after":
        lines.append(f"let r0{n} = sum{n}(s{n})")
    if var in ("nested",):
        lines += [f"let a{n} = {{", f"  let big{n} = {emb(f's{n}')}", f"  let b{n} = {{", f"    let bigger{n} = {emb(f'big{n}')}", f"    {up}", "  }", f"  b{n} + 1.0", "}"]
    elif var == "read-inner-and-after":
        lines += [f"let a{n} = {{", f"  let big{n} = {emb(f's{n}')}", f"  sum{n}(big{n})", "}"]
    else:
        lines += [f"let a{n} = {{", f"  let big{n} = {emb(f's{n}')}", f"  {up}", "}"]
    if var == "twice":
        lines += [f"let c{n} = {{", f"  let big2{n} = {emb(f's{n}')}", f"  {arg}", "}"]
    tail = {"twice": f" + c{n}", "read-before-and-after": f" + r0{n} + sum{n}(s{n})", "read-after": f" + sum{n}(s{n})",
            "read-inner-and-after": f" + sum{n}(s{n})", "pass-after": f" + sum{n}(s{n}) + sum{n}(s{n})"}.get(var, "")
    lines.append(f"let {v} = a{n}{tail}")
    kinds = "".join({"f": "f", "p2": "P", "p3": "Q", "r2": "r", "R": "R"}[e] for e in elems)
    return Unit(tag, f"{var}:{kinds}", lines, v, decls=[decl])


# unithelper: the construct sits in a function that ends in a statement (assignment to a global) and so returns unit
# (the VM leaves such a function through `ret0`, not `ret`)
WRAPPERS = ["helper", "if", "lambda", "block", "unithelper"]


class Prog:
    def __init__(self, units, layout=0):
        self.units = units
        self.layout = layout

    def tags(self):
        return sorted(set(t for u in self.units for t in [u.tag] + u.extra))

    def variants(self):
        return sorted(set(f"{u.tag}/{u.variant}" + ("".join("^" + w for w in u.wrappers)) for u in self.units))

    def scheduler(self):
        return any(u.sched for u in self.units)

    def src(self):
        needs, glob, helpers, body = [], [], [], []
        ind = "  " if self.layout % 2 == 0 else "    "
        for i, u in enumerate(self.units):
            n = u.res[1:]
            for k in u.needs:
                for d in DEPS.get(k, []) + [k]:
                    if d not in needs:
                        needs.append(d)
            glob += [g for g in u.globals if g not in glob]
            lines, res = list(u.lines), u.res
            body.append(f"let u{n} = " + ("now" if i % 2 == 0 else f"now*0.5 + {i}.0"))
            for w in u.wrappers:
                if w == "helper":
                    helpers.append(f"fn w{n}(u{n}){{\n" + "".join(ind + l + "\n" for l in lines) + ind + res + "\n}\n")
                    lines, res = [f"let r{n} = w{n}(u{n})"], f"r{n}"
                elif w == "unithelper":
                    glob.append(f"let ga{n} = 0.0")
                    helpers.append(f"fn wu{n}(u{n}){{\n" + "".join(ind + l + "\n" for l in lines) + ind + f"ga{n} = {res}\n}}\n")
                    lines, res = [f"wu{n}(u{n})"], f"ga{n}"
                elif w == "if":
                    lines = [f"let i{n} = if (now > 3.0) {{"] + [ind + l for l in lines] + [ind + res, "} else {", ind + "0.0", "}"]
                    res = f"i{n}"
                elif w == "lambda":
                    lines = [f"let k{n} = (|q{n}| {{"] + [ind + l for l in lines] + [ind + res + f" + q{n}", f"}})(u{n})"]
                    res = f"k{n}"
                elif w == "block":
                    lines = [f"let b{n} = {{"] + [ind + l for l in lines] + [ind + res, "}"]
                    res = f"b{n}"
            body += lines
            body.append(f"let z{n} = {res}")
        total = " + ".join(f"z{u.res[1:]}" for u in self.units) or "0.0"
        out = "".join(PRELUDE[k] for k in PRELUDE_ORDER if k in needs)
        out += "".join(d for u in self.units for d in u.decls)
        out += "".join(g + "\n" for g in glob)
        out += "".join(helpers)
        out += "fn dsp(){\n" + "".join(ind + l + "\n" for l in body) + ind + total + "\n}\n"
        return out


PROFILES = {
    # expected balanced on the pinned tree: any failure is a violation
    "balanced": (BALANCED_TAGS, 1, 4),
    # one construct of a leaky class (+ balanced company): failures are the known findings
    "leaky": (None, 1, 3),
    # everything mixed
    "mixed": (BALANCED_TAGS + LEAKY_TAGS, 2, 5),
    # recursive variants with multi-word payload elements: embedded / copied / dropped in nested blocks / read again
    "boxes": (["embed", "embed", "box"], 1, 3),
}


def make_case(seed, idx, profile, avoid=()):
    r = Rng(seed * 1000003 + idx * 7919 + sum(map(ord, profile)))
    tags, lo, hi = PROFILES[profile]
    nunits = lo + r.below(hi - lo + 1)
    units = []
    for j in range(nunits):
        if profile == "leaky":
            t = [LEAKY_TAGS[(idx + j) % len(LEAKY_TAGS)]] if j == 0 else BALANCED_TAGS + LEAKY_TAGS
        else:
            t = tags
        t = [x for x in t if x not in avoid] or BALANCED_TAGS
        u = make_unit(r, j + 1, t)
        nw = r.weighted([(0, 5), (1, 3), (2, 1)])
        ws = []
        for _ in range(nw):
            w = r.pick(WRAPPERS)
            # a scheduled closure inside a helper would capture the helper's parameter: fine; `@` inside a lambda body is fine too
            # known compiler crash C12-X1: a call with >= 2 arguments (or a `match`) directly inside the body of a
            # directly called lambda panics the compiler or overflows its stack
            # (former crash C12-X1 — a call with >= 2 arguments or a `match` directly inside the body of a directly called
            #  lambda — is repaired in /repo a8c3d51: such wrappers are generated again)
            # `{ G = e …` at the start of a block expression is read as a record literal
            if w == "block" and u.variant in ("global-reassign", "global-replace"):
                continue
            if w == "unithelper" and ("helper" in ws or "unithelper" in ws):
                continue
            if w == "helper" and "unithelper" in ws:
                continue
            if w not in ws:
                ws.append(w)
        u.wrappers = ws
        units.append(u)
    return Prog(units, layout=r.below(4))


def shrink(p, pred, budget=60):
    """greedy: drop units, then wrappers, while pred(program) stays true"""
    b = budget
    changed = True
    while changed and b > 0:
        changed = False
        for i in range(len(p.units)):
            if len(p.units) == 1:
                break
            q = Prog(p.units[:i] + p.units[i + 1:], p.layout)
            b -= 1
            if pred(q):
                p, changed = q, True
                break
        if changed:
            continue
        for i, u in enumerate(p.units):
            for j in range(len(u.wrappers)):
                q = Prog(p.units[:i] + [u.copy(wrappers=u.wrappers[:j] + u.wrappers[j + 1:])] + p.units[i + 1:], p.layout)
                b -= 1
                if pred(q):
                    p, changed = q, True
                    break
            if changed:
                break
    return p


if __name__ == "__main__":
    seed, idx, prof = int(sys.argv[1]), int(sys.argv[2]), sys.argv[3]
    p = make_case(seed, idx, prof)
    print("# tags:", p.tags(), p.variants(), "scheduler:", p.scheduler())
    print(p.src())
