"""C07: programs built from independent stateful voices, and edit histories over them.

A voice instance = (vid, kind, const, depth). Every voice function takes one float and does not read `now`, so the
output of an instance depends only on its own state and on the constants it was fed since it was created: the
expected stream of an instance is the reference semantics of `fn dsp(x:float){ kind(x) }` fed with those constants."""
import coregen
from coregen import Node, Fn, Prog, F

L = lambda s: Node("lit", s)
X = Node("var", "x")


def lib():
    """voice library: name -> Fn (param x)"""
    fns = {}

    def add(name, body, uses_self):
        fns[name] = Fn(name, ["x"], [F], F, body, uses_self, True)
    add("cnt", Node("bin", "add", Node("self"), X), True)
    add("pole", Node("bin", "add", Node("bin", "mul", X, L("0.5")), Node("bin", "mul", Node("self"), L("0.5"))), True)
    add("lag", Node("mem", X, 1), False)
    add("echo", Node("bin", "add", Node("delay", 4, X, L("2.0"), 1), X), False)
    add("lag2", Node("mem", Node("mem", X, 1), 2), False)
    add("echo8", Node("bin", "add", Node("bin", "mul", Node("delay", 8, X, L("5.0"), 1), L("0.5")), Node("self")), True)
    add("combo", Node("bin", "add", Node("call", "cnt", [X], 1), Node("call", "lag", [Node("bin", "mul", X, L("2.0"))], 2)), False)
    add("acc2", Node("bin", "add", Node("bin", "mul", Node("self"), L("0.25")), Node("mem", Node("bin", "add", X, L("1.0")), 1)), True)
    return fns


KINDS = ["cnt", "pole", "lag", "echo", "lag2", "echo8", "combo", "acc2"]
CONSTS = ["1.0", "0.5", "2.0", "0.25", "3.0", "0.125", "7.0", "1.5"]
POST_N = 8      # one ring size for every dsp-level delay (finding F2: the VM sizes every delay of a function like the first)


def children_of(voices):
    """index of each voice's cells among dsp's state children: vid -> (child index of the voice, child index of its post cell or None)"""
    out, i = {}, 0
    for v in voices:
        out[v["vid"]] = (i, i + 1 if v.get("post") else None)
        i += 2 if v.get("post") else 1
    return out


def wrapper(kind, depth):
    """fn w<d>_<kind>(x){ w<d-1>_<kind>(x) } — nesting a voice deeper"""
    out = []
    for d in range(1, depth + 1):
        inner = kind if d == 1 else f"w{d-1}_{kind}"
        out.append(Fn(f"w{d}_{kind}", ["x"], [F], F, Node("call", inner, [X], 1), False, True))
    return out


def render_prog(voices, observed):
    """voices: list of dict(vid, kind, const, depth); observed: (vid_a, vid_b); returns the coregen.Prog"""
    fns = lib()
    order = ["cnt", "lag"] + [k for k in KINDS if k not in ("cnt", "lag")]
    defs = [fns[k] for k in order]
    seen = set()
    for v in voices:
        if v["depth"] > 0 and (v["kind"], v["depth"]) not in seen:
            for w in wrapper(v["kind"], v["depth"]):
                if w.name not in [d.name for d in defs]:
                    defs.append(w)
            seen.add((v["kind"], v["depth"]))
    body = Node("tup", [Node("var", f"c{observed[0]}"), Node("var", f"c{observed[1]}")])
    for v in reversed(voices):
        fname = v["kind"] if v["depth"] == 0 else f"w{v['depth']}_{v['kind']}"
        call = Node("call", fname, [L(v["const"])], v["vid"])
        post = v.get("post")
        if post and post["kind"] == "delay":
            # the voice feeds a delay cell owned by dsp: the cell is a sibling site AFTER the voice's own state
            call = Node("delay", POST_N, call, L("%d.0" % post["d"]), 1000 + post["pid"])
        elif post and post["kind"] == "mem":
            call = Node("mem", call, 1000 + post["pid"])
        body = Node("let", f"c{v['vid']}", call, body)
    dsp = Fn("dsp", [], [], coregen.T(F, F), body, False, True)
    return Prog([], defs, dsp)


def render(voices, observed, broken=False):
    """the source text of a version (`broken`: with an injected syntax error)"""
    src = render_prog(voices, observed).src()
    if broken:
        src = src.replace("fn dsp() {", "fn dsp() { let = ", 1)
    return src


def render_sx(voices, observed, broken=False):
    """the same program as S-expression for the Lean reference semantics (`BROKEN`: does not compile)"""
    return "BROKEN" if broken else render_prog(voices, observed).sx()


def alone(kind):
    """(src-less) program for the reference semantics of one voice: sx of fn dsp(x){ kind(x) }"""
    fns = lib()
    defs = [fns["cnt"], fns["lag"]] + ([fns[kind]] if kind not in ("cnt", "lag") else [])
    dsp = Fn("dsp", ["x"], [F], F, Node("call", kind, [X], 1), False, True)
    return Prog([], defs, dsp).sx()


def history(rng, nedits, total):
    """returns list of versions [(t_swap, voices, observed, broken)], version 0 at t=0"""
    vid = [0]

    def new_voice(post=True):
        vid[0] += 1
        v = dict(vid=vid[0], kind=rng.pick(KINDS), const=rng.pick(CONSTS), depth=0, born=None)
        if post and rng.chance(1, 3):
            # a post-processing cell at the call site: `delay(8, voice(c), d)` or `mem(voice(c))`; its identity (pid)
            # outlives a replacement of the voice inside it
            vid[0] += 1
            v["post"] = dict(pid=vid[0], kind="delay", d=1 + rng.below(POST_N - 1)) if rng.chance(3, 4) else dict(pid=vid[0], kind="mem", d=1)
        return v
    voices = [new_voice() for _ in range(2 + rng.below(3))]
    versions = []
    times = sorted(set(1 + rng.below(total - 2) for _ in range(nedits)))

    def pick_obs(vs, prefer):
        ids = [v["vid"] for v in vs]
        a = rng.pick(prefer) if prefer else rng.pick(ids)
        b = rng.pick(ids)
        return (a, b)
    versions.append(dict(t=0, voices=[dict(v) for v in voices], observed=pick_obs(voices, None), broken=False, edit="init", touched=set(), fresh=set(v["vid"] for v in voices)))
    for t in times:
        kind = rng.weighted([("insert", 4), ("delete", 3), ("replace", 2), ("nest", 1), ("const", 3), ("broken", 2)])
        vs = [dict(v) for v in voices]
        touched, fresh, ambiguous, kept = set(), set(), False, set()
        if kind == "insert" or len(vs) <= 1:
            v = new_voice()
            vs.insert(rng.below(len(vs) + 1), v)
            fresh.add(v["vid"])
            kind = "insert"
        elif kind == "delete":
            i = rng.below(len(vs))
            del vs[i]
        elif kind == "replace":
            i = rng.below(len(vs))
            old = vs[i]
            keep_post = old.get("post") and rng.chance(2, 3)
            v = new_voice(post=not keep_post)
            while v["kind"] == old["kind"]:
                v["kind"] = rng.pick(KINDS)
            if keep_post:
                # only the voice INSIDE the post cell is replaced: the cell itself is an untouched site and must keep its
                # content (the old voice's last outputs come out of it first)
                v["post"] = dict(old["post"])
                kept.add(v["vid"])
            vs[i] = v
            fresh.add(v["vid"])
        elif kind == "nest":
            i = rng.below(len(vs))
            vs[i]["depth"] += 1
            touched.add(vs[i]["vid"])
        elif kind == "const":
            i = rng.below(len(vs))
            c = rng.pick(CONSTS)
            vs[i]["const"] = c
        broken = kind == "broken"
        if not broken:
            voices = vs
        cur = vs if not broken else voices
        untouched = [v["vid"] for v in cur if v["vid"] not in touched and v["vid"] not in fresh] + sorted(kept) * 2
        versions.append(dict(t=t, voices=[dict(v) for v in cur], observed=pick_obs(cur, untouched) if not broken else versions[-1]["observed"],
                             broken=broken, edit=kind, touched=touched, fresh=fresh))
    return versions
