"""Aggregate-pressure programs: straight-line bodies that keep several multi-word values (records, tuples, nested tuples,
function-valued fields) alive at once, write into their middles (field assignment), interleave single-word results of
stateful operations (mem / delay / stateful call) and copies, and finally READ BACK EVERY LEAF of every live aggregate —
so that a value clobbered by a wrong register / stack slot / word offset changes the output (number leaves) or crashes
(function leaves). Rendered through coregen's Node/Fn/Prog: same source + S-expression path as every other profile."""
import coregen
from coregen import Node, Fn, Prog, F, T

L = lambda s: Node("lit", s)
FIELDSETS = [["a", "b", "c"], ["freq", "amp", "zf"], ["x", "y"], ["p", "q", "r", "s"], ["k", "m", "zz"], ["b", "a", "c", "d"]]
LITS = ["1.0", "2.0", "0.5", "3.0", "100.0", "0.25", "7.0", "1.5"]


class AggrGen:
    def __init__(self, rng, profile):
        self.r, self.p, self.n, self.site = rng, profile, 0, 0
        self.stats = {}

    def bump(self, k):
        self.stats[k] = self.stats.get(k, 0) + 1

    def fresh(self, b="v"):
        self.n += 1
        return f"{b}{self.n}"

    def new_site(self):
        self.site += 1
        return self.site

    # ---- leaves of an aggregate type: ("f") float, ("fn") function of one float, ("t", [..]) tuple, ("r", [(name, ty)..]) record
    def gen_type(self, depth):
        r = self.r
        k = r.weighted([("r", 5), ("t", 4)])
        if k == "r":
            fs = r.pick(FIELDSETS)
            tys = [(f, self.leaf_type(depth)) for f in sorted(fs)]
            if len(tys) >= 3 and self.p.get("fn_fields", True) and r.chance(1, 3):
                tys[-1] = (tys[-1][0], ("fn",))      # a handle (closure) as the LAST word of the record: a clobbered word crashes
            return ("r", tys)
        return ("t", [self.leaf_type(depth) for _ in range(2 + r.below(3))])

    def leaf_type(self, depth):
        r = self.r
        k = r.weighted([("f", 10), ("fn", 2 if self.p.get("fn_fields", True) else 0), ("t", 2 if depth > 0 else 0)])
        if k == "t":
            return ("t", [self.leaf_type(depth - 1) for _ in range(2 + r.below(2))])
        return (k,)

    def floats(self, ctx):
        return [v for v, t, _ in ctx if t == ("f",)]

    def simple(self, ctx, d=2):
        r = self.r
        fl = self.floats(ctx)
        paths = [p for v, t, _ in ctx for p, lt in self.paths(Node("var", v), t) if lt == ("f",) and t != ("f",)]
        k = r.weighted([("lit", 3), ("var", 4 if fl else 0), ("path", 4 if paths else 0), ("bin", 3 if d > 0 else 0), ("in", 2)])
        if k == "lit":
            return L(r.pick(LITS))
        if k == "var":
            return Node("var", r.pick(fl))
        if k == "path":
            return r.pick(paths)
        if k == "in":
            return Node("var", "a0")
        return Node("bin", r.pick(["add", "sub", "mul"]), self.simple(ctx, d - 1), self.simple(ctx, d - 1))

    def value(self, t, ctx):
        """an expression of aggregate/leaf type t"""
        r = self.r
        if t == ("f",):
            return self.simple(ctx)
        if t == ("fn",):
            p = self.fresh("p")
            # listed finding G2 (WASM: a closure capturing a variable bound by tuple destructuring reads 0): not captured here
            fl = [v for v, t, m in ctx if t == ("f",)]      # (destructured variables too: finding G2 is repaired, /repo ee06339)
            body = Node("bin", "add", Node("bin", "mul", Node("var", p), L(r.pick(LITS))), Node("var", r.pick(fl)) if fl and r.chance(1, 2) else L(r.pick(LITS)))
            return Node("lam", [p], body)
        if t[0] == "t":
            return Node("tup", [self.value(x, ctx) for x in t[1]])
        items = [(f, self.value(ft, ctx)) for f, ft in t[1]]
        if r.chance(1, 2):
            items = sorted(items, key=lambda _: r.next())      # literal written in any field order
        return Node("rec", items)

    def paths(self, e, t):
        """[(expression reading the leaf, leaf type)] for every leaf of a value `e` of type t"""
        if t in (("f",), ("fn",)):
            return [(e, t)]
        out = []
        if t[0] == "t":
            for i, x in enumerate(t[1]):
                out += self.paths(Node("proj", e, i), x)
        else:
            n = len(t[1])
            for i, (f, ft) in enumerate(t[1]):
                out += self.paths(Node("field", e, f, i, n), ft)
        return out

    def stateful(self, ctx):
        r = self.r
        k = r.weighted([("mem", 4), ("delay", 3), ("acc", 3)])
        if k == "mem":
            return Node("mem", self.simple(ctx), self.new_site())
        if k == "delay":
            return Node("delay", 4, self.simple(ctx), L(r.pick(["1.0", "2.0", "3.0"])), self.new_site())
        return Node("call", "acc", [self.simple(ctx)], self.new_site())

    def readback(self, ctx):
        terms = []
        for v, t, _ in ctx:
            for e, lt in self.paths(Node("var", v), t):
                terms.append(e if lt == ("f",) else Node("app", e, [L(self.r.pick(["1.0", "2.0", "3.0"]))]))
        return terms

    def body(self, ctx, nst):
        r = self.r
        stmts = []
        for _ in range(nst):
            aggs = [(v, t, m) for v, t, m in ctx if t not in (("f",), ("fn",))]
            recs = [(v, t, m) for v, t, m in aggs if t[0] == "r" and any(ft == ("f",) for _, ft in t[1])]
            tups = [(v, t, m) for v, t, m in aggs if t[0] == "t"]
            k = r.weighted([("agg", 6), ("setf", 6 if recs else 0), ("state", 5), ("copy", 2 if aggs else 0), ("dest", 2 if tups else 0),
                            ("let", 2), ("set", 1 if self.floats(ctx) else 0)])
            self.bump("s_" + k)
            if k == "agg":
                t = self.gen_type(1)
                x = self.fresh("r" if t[0] == "r" else "t")
                e = self.value(t, ctx)
                stmts.append(("letr", x, None, e) if t[0] == "r" else ("let", x, e))
                ctx.append((x, t, True))
            elif k == "setf":
                v, t, _ = r.pick(recs)
                cands = [(i, f) for i, (f, ft) in enumerate(t[1]) if ft == ("f",)]
                # prefer a middle field (neither the first nor the last word of the record)
                mid = [c for c in cands if 0 < c[0] < len(t[1]) - 1]
                i, f = r.pick(mid if mid and r.chance(2, 3) else cands)
                stmts.append(("setf", v, f, i, len(t[1]), self.simple(ctx)))
                if r.chance(1, 2):
                    # a single-word result produced right after the write into the middle of the record
                    x = self.fresh()
                    stmts.append(("let", x, self.stateful(ctx)))
                    ctx.append((x, ("f",), True))
            elif k == "state":
                x = self.fresh()
                stmts.append(("let", x, self.stateful(ctx)))
                ctx.append((x, ("f",), True))
            elif k == "copy":
                v, t, _ = r.pick(aggs)
                x = self.fresh("q")
                stmts.append(("let", x, Node("var", v)))
                ctx.append((x, t, True))
            elif k == "dest":
                v, t, _ = r.pick(tups)
                if all(x == ("f",) for x in t[1]):
                    xs = [self.fresh() for _ in t[1]]
                    stmts.append(("lett", xs, Node("var", v)))
                    ctx += [(x, ("f",), "destr") for x in xs]
            elif k == "let":
                x = self.fresh()
                stmts.append(("let", x, self.simple(ctx)))
                ctx.append((x, ("f",), True))
            else:
                v = r.pick([v for v, t, m in ctx if t == ("f",) and m is True] or [None])
                if v:
                    stmts.append(("set", v, self.simple(ctx)))
        terms = self.readback(ctx)
        tail = self.stateful(ctx) if r.chance(3, 4) else self.simple(ctx)
        for e in terms:
            tail = Node("bin", "add", tail, e)
        for st in reversed(stmts):
            if st[0] == "let":
                tail = Node("let", st[1], st[2], tail)
            elif st[0] == "lett":
                tail = Node("lett", st[1], st[2], tail)
            elif st[0] == "letr":
                tail = Node("letr", st[1], st[2], st[3], tail)
            elif st[0] == "setf":
                tail = Node("setf", st[1], st[2], st[3], st[4], st[5], tail)
            else:
                tail = Node("set", st[1], st[2], tail)
        return tail

    def gen_prog(self):
        r = self.r
        acc = Fn("acc", ["x"], [F], F, Node("bin", "add", Node("bin", "mul", Node("self"), L("0.5")), Node("var", "x")), True, True)
        fns = [acc]
        if r.chance(1, 2):
            # the same pressure inside a called function (its frame sits above dsp's)
            ctx = [("x", ("f",), False)]
            saved = self.p
            b = self.body_in_fn(ctx)
            fns.append(Fn("work", ["x"], [F], F, b, False, True))
            self.p = saved
        ctx = [("a0", ("f",), False)]
        body = self.body(ctx, 3 + r.below(6))
        if len(fns) > 1:
            body = Node("bin", "add", Node("call", "work", [Node("var", "a0")], self.new_site()), body)
        dsp = Fn("dsp", ["a0"], [F], F, body, False, True)
        return Prog([], fns, dsp)

    def body_in_fn(self, ctx):
        # inside `work` the input variable is `x`, not `a0`
        b = self.body(ctx, 2 + self.r.below(4))
        return rename_var(b, "a0", "x")


def rename_var(n, old, new):
    if not isinstance(n, Node):
        if isinstance(n, list):
            return [rename_var(x, old, new) for x in n]
        if isinstance(n, tuple):
            return tuple(rename_var(x, old, new) for x in n)
        return n
    if n.kind == "var" and n.a[0] == old:
        return Node("var", new)
    return Node(n.kind, *[rename_var(x, old, new) for x in n.a])
