"""Array programs for the state-layout check (C05; no reference semantics — the Core model has no arrays): stateful constructs in
every position an array expression offers — the INDEX of an access, the ELEMENTS of a literal, the array operand itself — inside helper
functions and in dsp, before and after other state cells.  Judged by the hook's access trace against the published layout and by the
static MIR check; seeded change C05d dropped the cells of the index expression."""

STATEFUL = [
    ("cnt({k})", "fn cnt(inc){ self + inc }"),
    ("ph({k})", "fn ph(f){ (self + f) % 1.0 }"),
    ("mem({x})", None),
    ("delay(4.0, {x}, 1.0)", None),
    ("lag({x})", "fn lag(x){ mem(x) * 0.5 + self * 0.5 }"),
]
ARRAYS = [
    ("g", "let tbl = [1.0, 2.0, 3.0, 4.0]", "tbl", 4),
    ("l", None, "[10.0, 20.0, 30.0]", 3),
    ("p", None, None, 4),          # array parameter of the helper
]


def make(seed, n):
    """n programs, deterministic in (seed, index)"""
    out = []
    i = 0
    combos = [(s, a, pos, where) for s in range(len(STATEFUL)) for a in range(len(ARRAYS)) for pos in range(4) for where in range(3)]
    # a fixed permutation of the whole small scope
    combos.sort(key=lambda c: ((c[0] * 7 + c[1] * 13 + c[2] * 29 + c[3] * 31 + seed * 17) % 97, c))
    for (s, a, pos, where) in combos[:n]:
        expr_t, decl = STATEFUL[s]
        kind, adecl, aexpr, alen = ARRAYS[a]
        k = ["0.25", "1.0", "0.5"][(s + a + pos) % 3]
        st = expr_t.format(k=k, x="now * " + k)
        decls = ["fn cnt(inc){ self + inc }"] if decl is None or "cnt" not in decl else []
        if decl:
            decls.append(decl)
        if adecl:
            decls.append(adecl)
        # where the stateful expression sits
        if pos == 0:      # index
            acc = f"{aexpr or 'arr'}[({st}) % {alen}.0]"
        elif pos == 1:    # element of a literal that is indexed at once
            acc = f"[{st}, 2.0, 3.0][1.0 + 0.0 * now] + [{st}, 5.0][0.0]"
        elif pos == 2:    # index AND a second stateful cell after it in the same expression
            acc = f"{aexpr or 'arr'}[({st}) % {alen}.0] + mem(now)"
        else:             # nested: index expression contains an array access whose index is stateful
            acc = f"{aexpr or 'arr'}[{aexpr or 'arr'}[({st}) % {alen}.0] % {alen}.0]"
        helper_param = "arr, " if kind == "p" else ""
        helper_arg = "[1.0, 2.0, 3.0, 4.0], " if kind == "p" else ""
        if where == 0:    # in dsp, after another cell
            body = f"fn dsp(){{\n  let a = cnt(1.0)\n  " + (f"let arr = [1.0, 2.0, 3.0, 4.0]\n  " if kind == "p" else "") + f"let b = {acc}\n  a * 1000.0 + b + cnt(0.5)\n}}"
        elif where == 1:  # the access is the ONLY state of a helper called after another cell
            body = f"fn lookup({helper_param}z){{ {acc} + z }}\nfn dsp(){{\n  let a = cnt(1.0)\n  let b = lookup({helper_arg}0.0)\n  a * 1000.0 + b + cnt(0.5)\n}}"
        else:             # helper called from two sites, with cells around
            body = f"fn lookup({helper_param}z){{ let m = mem(z)\n  {acc} + m }}\nfn dsp(){{\n  lookup({helper_arg}1.0) * 1000.0 + cnt(1.0) + lookup({helper_arg}2.0)\n}}"
        src = "\n".join(dict.fromkeys(decls)) + "\n" + body + "\n"
        out.append({"id": f"arr:{seed}:{i}", "src": src, "sx": None, "inputs": [], "times": 8, "profile": "arrays"})
        i += 1
    return out


if __name__ == "__main__":
    import sys
    for c in make(1, int(sys.argv[1]) if len(sys.argv) > 1 else 3):
        print(c["src"])
