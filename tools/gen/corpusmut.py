"""Token-level mutations of shipped mimium sources (C01 corpus stream): constant tweaks, operator swaps, argument swaps.
Only mutations that keep the program's structure: they cannot leave the fragment the unmutated file is in."""
import re, glob, os

NUM = re.compile(r"(?<![A-Za-z_0-9.])(\d+\.\d+|\d+)(?![A-Za-z_0-9.])")
SWAPS = {"+": "-", "-": "+", "*": "/", "<": ">", ">": "<", "<=": ">=", ">=": "<=", "==": "!=", "!=": "=="}
OP = re.compile(r"(?<=[\w)\] ])\s(\+|-|\*|<=|>=|==|!=|<|>)\s(?=[\w(\[ -])")
CONSTS = ["1.0", "2.0", "0.5", "3.0", "0.25", "10.0", "0.1", "7.0", "100.0", "0.001", "1.5"]


def shipped_files(repo="/repo"):
    pats = ["crates/lib/mimium-test/tests/mmm/*.mmm", "examples/*.mmm", "lib/*.mmm"]
    out = []
    for p in pats:
        out += sorted(glob.glob(os.path.join(repo, p)))
    return out


def strip_comments_mask(src):
    """positions inside comments / strings are not mutated"""
    mask = [False] * len(src)
    i, n = 0, len(src)
    while i < n:
        if src.startswith("//", i):
            j = src.find("\n", i)
            j = n if j < 0 else j
            for k in range(i, j):
                mask[k] = True
            i = j
        elif src.startswith("/*", i):
            j = src.find("*/", i + 2)
            j = n if j < 0 else j + 2
            for k in range(i, j):
                mask[k] = True
            i = j
        elif src[i] == '"':
            j = src.find('"', i + 1)
            j = n if j < 0 else j + 1
            for k in range(i, j):
                mask[k] = True
            i = j
        else:
            i += 1
    return mask


def mutate(src, rng):
    """returns (kind, new_src) or (None, None)"""
    mask = strip_comments_mask(src)
    nums = [m for m in NUM.finditer(src) if not mask[m.start()] and not src[max(0, m.start() - 7):m.start()].strip().endswith("#stage")]
    # literals that are delay sizes / tuple indices / `.0` projections are left alone (structure)
    nums = [m for m in nums if not re.search(r"(delay\s*\(\s*$|\.\s*$|\[\s*$)", src[max(0, m.start() - 12):m.start()])]
    # (former finding G5 of C01 -- `%` computed differently by the two back ends when a/b is inexact -- is repaired: constants next
    # to `%` are mutated like any other); known finding G4: a zero frequency fed to lib/osc.mmm `sinwave` gives 0x1d on the VM
    # -> zero is not injected
    ops = [m for m in OP.finditer(src) if not mask[m.start(1)]]
    kinds = []
    if nums:
        kinds += ["const"] * 3
    if ops:
        kinds += ["op"] * 2
    if not kinds:
        return None, None
    k = rng.pick(kinds)
    if k == "const":
        m = rng.pick(nums)
        c = rng.pick(CONSTS)
        if "." not in m.group(1):
            c = str(int(float(c))) if float(c) == int(float(c)) else m.group(1)
        return "const", src[:m.start(1)] + c + src[m.end(1):]
    m = rng.pick(ops)
    return "op", src[:m.start(1)] + SWAPS[m.group(1)] + src[m.end(1):]
