"""Inputs of the unification correspondence (C03 stream `unification`): types as S-expressions (protocol of c03u.rs / Drv/C03u.lean).

small(k)      : every type with <= k constructors over {num int str unit tuple record fn array code ?0 ?1 ?2}
                (records: keys 0/1, the default flag on the first field)
deep(rng, d)  : random types over ALL constructors (ref box uni sum sch ali any fail unk too), depth <= d
near(rng, t)  : a type obtained from t by the edits unification is lenient or strict about (wrap in a one-element tuple / record,
                drop / add / reorder a member, replace a subterm by a variable or by any / fail, box, change a primitive)
"""
LEAVES = ["num", "int", "str", "unit", "?0", "?1", "?2"]


def small(k):
    """list of lists: types by exact number of constructors 1..k"""
    by = {1: LEAVES + ["(tup)", "(rec)"]}
    for n in range(2, k + 1):
        out = []
        for t in by[n - 1]:
            out += [f"(arr {t})", f"(code {t})", f"(tup {t})", f"(rec (f 0 0 {t}))", f"(rec (f 0 1 {t}))", f"(rec (f 1 0 {t}))"]
        for i in range(1, n - 1):
            for a in by[i]:
                for b in by[n - 1 - i]:
                    out += [f"(fn {a} {b})", f"(tup {a} {b})", f"(rec (f 0 0 {a}) (f 1 0 {b}))", f"(rec (f 1 0 {a}) (f 0 0 {b}))",
                            f"(rec (f 0 1 {a}) (f 1 0 {b}))"]
        by[n] = out
    return [by[n] for n in range(1, k + 1)]


def deep(rng, d, nvars=4):
    if d <= 0 or rng.chance(1, 4):
        return rng.weighted([("num", 6), ("int", 3), ("str", 2), ("unit", 3), ("any", 1), ("fail", 1), ("unk", 1), ("(tup)", 1), ("(rec)", 1),
                             ("?%d" % rng.below(nvars), 10), ("(sum %d)" % rng.below(2), 1), ("(sch %d)" % rng.below(2), 1),
                             ("(ali %d)" % rng.below(2), 1)])
    k = rng.weighted([("arr", 3), ("ref", 1), ("code", 2), ("box", 2), ("tup", 6), ("rec", 5), ("fn", 6), ("uni", 3)])
    if k in ("arr", "ref", "code", "box"):
        return f"({k} {deep(rng, d - 1, nvars)})"
    if k == "fn":
        return f"(fn {deep(rng, d - 1, nvars)} {deep(rng, d - 1, nvars)})"
    n = rng.weighted([(0, 1), (1, 4), (2, 6), (3, 3)])
    if k == "rec":
        keys = [rng.below(4) for _ in range(n)]
        if not rng.chance(1, 6):
            keys = sorted(set(keys))        # mostly sorted and distinct, as the parser makes them; sometimes neither
        return "(rec" + "".join(f" (f {key} {1 if rng.chance(1, 5) else 0} {deep(rng, d - 1, nvars)})" for key in keys) + ")"
    return f"({k}" + "".join(" " + deep(rng, d - 1, nvars) for _ in range(n)) + ")"


def parse(s):
    toks = s.replace("(", " ( ").replace(")", " ) ").split()
    pos = [0]

    def go():
        t = toks[pos[0]]
        pos[0] += 1
        if t != "(":
            return t
        xs = []
        while toks[pos[0]] != ")":
            xs.append(go())
        pos[0] += 1
        return xs
    return go()


def show(x):
    return x if isinstance(x, str) else "(" + " ".join(show(y) for y in x) + ")"


def _subterms(x, path=()):
    """paths of all TYPE positions"""
    yield path
    if isinstance(x, list):
        h = x[0]
        if h == "rec":
            for i, f in enumerate(x[1:], 1):
                yield from _subterms(f[3], path + (i, 3))
        elif h in ("arr", "ref", "code", "box", "tup", "uni", "fn"):
            for i, y in enumerate(x[1:], 1):
                yield from _subterms(y, path + (i,))


def _get(x, path):
    for i in path:
        x = x[i]
    return x


def _set(x, path, v):
    if not path:
        return v
    y = list(x)
    y[path[0]] = _set(x[path[0]], path[1:], v)
    return y


def near(rng, s, nvars=4):
    x = parse(s)
    for _ in range(1 + rng.below(3)):
        paths = list(_subterms(x))
        p = rng.pick(paths)
        sub = _get(x, p)
        kind = rng.below(12)
        if kind == 0:
            new = ["tup", sub]
        elif kind == 1:
            new = ["rec", ["f", str(rng.below(3)), "1" if rng.chance(1, 4) else "0", sub]]
        elif kind == 2:
            new = "?%d" % rng.below(nvars)
        elif kind == 3:
            new = rng.pick(["any", "fail", "unit", "num", "int", "str", "unk"])
        elif kind == 4:
            new = ["box", sub]
        elif kind == 5 and isinstance(sub, list) and sub[0] in ("tup", "uni", "rec") and len(sub) > 1:
            i = 1 + rng.below(len(sub) - 1)
            new = sub[:i] + sub[i + 1:]
        elif kind == 6 and isinstance(sub, list) and sub[0] in ("tup", "uni"):
            new = sub + [parse(deep(rng, 1, nvars))]
        elif kind == 7 and isinstance(sub, list) and sub[0] == "rec":
            new = sub + [["f", str(rng.below(4)), "1" if rng.chance(1, 3) else "0", parse(deep(rng, 1, nvars))]]
        elif kind == 8 and isinstance(sub, list) and sub[0] in ("tup", "uni", "rec") and len(sub) > 2:
            i = 1 + rng.below(len(sub) - 2)
            new = sub[:i] + [sub[i + 1], sub[i]] + sub[i + 2:]
        elif kind == 9 and isinstance(sub, list) and sub[0] == "rec" and len(sub) > 1:
            new = ["tup"] + [f[3] for f in sub[1:]]
        elif kind == 10:
            new = ["uni", sub, parse(deep(rng, 1, nvars))]
        elif kind == 11 and isinstance(sub, list) and len(sub) == 2 and sub[0] in ("tup", "box", "arr", "code", "ref"):
            new = sub[1] if not isinstance(sub[1], list) or sub[0] != "rec" else sub
        else:
            continue
        x = _set(x, p, new)
    return show(x)
