"""Type-directed generator of core-language programs (the fragment of C02's list).

One Python AST -> (a) mimium source text (with layout knobs), (b) the S-expression the Lean reference evaluator reads.
Every random choice comes from one splitmix64 state, so a case replays from (seed, index, profile).

Profiles steer toward / away from known trouble (see known_findings.jsonl):
  avoid_f2: at most one delay size per function     avoid_f3: no stateful construct inside an `if` arm
  (both findings are repaired in the compiler: every profile has the knobs OFF; they remain for experiments)
"""
import struct, math

MASK = (1 << 64) - 1


class Rng:
    def __init__(self, seed):
        self.s = (seed * 0x9E3779B97F4A7C15 ^ 0xD1B54A32D192ED03) & MASK

    def next(self):
        self.s = (self.s + 0x9E3779B97F4A7C15) & MASK
        z = self.s
        z = ((z ^ (z >> 30)) * 0xBF58476D1CE4E5B9) & MASK
        z = ((z ^ (z >> 27)) * 0x94D049BB133111EB) & MASK
        return z ^ (z >> 31)

    def below(self, n):
        return self.next() % n if n > 0 else 0

    def chance(self, num, den):
        return self.below(den) < num

    def pick(self, xs):
        return xs[self.below(len(xs))]

    def weighted(self, pairs):
        tot = sum(w for _, w in pairs)
        k = self.below(tot)
        for x, w in pairs:
            if k < w:
                return x
            k -= w
        return pairs[-1][0]


def f64bits(x):
    return struct.unpack("<Q", struct.pack("<d", x))[0]


def hex16(b):
    return "%016x" % b


# ---- types -----------------------------------------------------------------
F = "f"


def T(*ts):
    return ("t",) + tuple(ts)


def is_tuple(t):
    return isinstance(t, tuple) and t[0] == "t"


def shape_sx(t):
    if t == F:
        return "n"
    return "(t " + " ".join(shape_sx(x) for x in t[1:]) + ")"


NICE = ["0.0", "1.0", "2.0", "0.5", "3.0", "0.25", "10.0", "100.0", "4.0", "0.125", "7.0", "1.5", "2.5"]
ODD = ["0.001", "0.1", "3.14159", "0.3", "1.1", "44100.0", "0.007", "2.71828", "0.05", "123.456", "0.9999", "1000000.0", "0.000001"]


class Node:
    """AST node: kind + fields; `src(knobs)` and `sx()` render it."""

    def __init__(self, kind, *a):
        self.kind = kind
        self.a = a


BINOPS = [("add", "+"), ("sub", "-"), ("mul", "*"), ("div", "/"), ("lt", "<"), ("le", "<="), ("gt", ">"), ("ge", ">="),
          ("eq", "=="), ("ne", "!="), ("and", "&&"), ("or", "||"), ("mod", "%")]
BINSYM = dict(BINOPS)
PREC = {"or": 1, "and": 2, "eq": 3, "ne": 3, "lt": 4, "le": 4, "gt": 4, "ge": 4, "add": 5, "sub": 5, "mul": 6, "div": 6, "mod": 6}


def sx(n):
    k, a = n.kind, n.a
    if k == "lit":
        return f"(lit {hex16(f64bits(float(a[0])))})"
    if k == "var":
        return f"(var {a[0]})"
    if k == "un":
        return f"(un {a[0]} {sx(a[1])})"
    if k == "bin":
        return f"(bin {a[0]} {sx(a[1])} {sx(a[2])})"
    if k == "if":
        return f"(if {sx(a[0])} {sx(a[1])} {sx(a[2])})"
    if k == "let":
        return f"(let {a[0]} {sx(a[1])} {sx(a[2])})"
    if k == "lett":
        return f"(lett ({' '.join(a[0])}) {sx(a[1])} {sx(a[2])})"
    if k == "rec":       # record literal: the model sees the tuple of its fields in sorted field order
        return "(tup " + " ".join(sx(e) for _, e in sorted(a[0], key=lambda fe: fe[0])) + ")"
    if k == "field":     # r.f  = projection at the field's sorted index
        return f"(proj {sx(a[0])} {a[2]})"
    if k == "letr":      # let r[: T] = e
        return f"(let {a[0]} {sx(a[2])} {sx(a[3])})"
    if k == "setf":      # r.f = e ; rest   ==  r = (r.0, …, e, …) ; rest
        comps = [sx(a[4]) if i == a[2] else f"(proj (var {a[0]}) {i})" for i in range(a[3])]
        return f"(set {a[0]} (tup {' '.join(comps)}) {sx(a[5])})"
    if k == "recupd":    # { r <- f = e }
        comps = [sx(a[4]) if i == a[2] else f"(proj (var {a[0]}) {i})" for i in range(a[3])]
        return "(tup " + " ".join(comps) + ")"
    if k == "letrp":     # let {f = x, …} = e ; body  == lett (x… in sorted field order) e body
        names = [v for _, v in sorted(a[0], key=lambda fv: fv[0])]
        return f"(lett ({' '.join(names)}) {sx(a[1])} {sx(a[2])})"
    if k == "letp":
        # nested tuple pattern, desugared for the model into flat destructurings through temporaries
        return sx(desugar_pattern(a[0], a[1], a[2]))
    if k == "tup":
        return "(tup " + " ".join(sx(x) for x in a[0]) + ")"
    if k == "proj":
        return f"(proj {sx(a[0])} {a[1]})"
    if k == "call":
        return f"(call {a[0]} {a[2]} " + " ".join(sx(x) for x in a[1]) + ")"
    if k == "app":
        return f"(app {sx(a[0])} " + " ".join(sx(x) for x in a[1]) + ")"
    if k == "lam":
        return f"(lam ({' '.join(a[0])}) {sx(a[1])})"
    if k == "self":
        return "self"
    if k == "mem":
        return f"(mem {a[1]} {sx(a[0])})"
    if k == "delay":
        return f"(delay {a[3]} {a[0]} {sx(a[1])} {sx(a[2])})"
    if k == "now":
        return "now"
    if k == "sr":
        return "sr"
    if k == "set":
        return f"(set {a[0]} {sx(a[1])} {sx(a[2])})"
    raise ValueError(k)


_tmp_counter = [0]


def pat_names(p):
    return [p] if isinstance(p, str) else [x for q in p for x in pat_names(q)]


def desugar_pattern(pat, e, body):
    """let ((a,b),c) = e; body  ==>  lett (tmp, c) = e; lett (a,b) = tmp; body   (model side only)"""
    names, inner = [], []
    for q in pat:
        if isinstance(q, str):
            names.append(q)
        else:
            _tmp_counter[0] += 1
            t = "pt%d_%s" % (_tmp_counter[0], "_".join(pat_names(q))[:40])
            names.append(t)
            inner.append((q, t))
    for q, t in reversed(inner):
        body = desugar_pattern(q, Node("var", t), body)
    return Node("lett", names, e, body)


def pat_src(p, kn):
    return kn.name(p) if isinstance(p, str) else "(" + ", ".join(pat_src(q, kn) for q in p) + ")"


def type_src(t):
    return "float" if t == F else "(" + ", ".join(type_src(x) for x in t[1:]) + ")"


class Knobs:
    """layout knobs of the renderer (C16 / C14 use non-default ones)"""

    def __init__(self, parens=False, pipe=False, comments=False, newline_in_brackets=False, rename=None, annotate=False, fieldrename=None,
                 dedent=False, semi=False):
        self.dedent = dedent      # no indentation at all: every line starts in column 0
        self.semi = semi          # statements of a block separated by `;` directly followed by the next token
        self.parens = parens
        self.pipe = pipe
        self.comments = comments
        self.nl = newline_in_brackets
        self.rename = rename or {}
        self.annotate = annotate
        self.fieldrename = fieldrename or {}

    def name(self, x):
        return self.rename.get(x, x)

    def field(self, f):
        return self.fieldrename.get(f, f)


DEFAULT = Knobs()


def _cmt(kn, key):
    """deterministic comment / blank-line decoration for layout knobs"""
    if not kn.comments:
        return None
    h = (hash_name(key) * 2654435761) & 0xFFFF
    return [None, "// note %d" % (h % 97), "/* blk %d */" % (h % 89), "", None][h % 5]


def block(n, kn, ind):
    """render n as the contents of a `{ }` block: a sequence of statements ending in an expression"""
    pad = "" if kn.dedent else "  " * ind
    lines = []
    _lines_append = lines.append

    def add(line, key):
        c = _cmt(kn, key)
        if c is not None:
            lines.append(pad + c if c else "")
        tail = _cmt(kn, key + "t")
        lines.append(line + ((" " + tail) if tail else ""))
    while n.kind in ("let", "lett", "set", "letp", "letr", "setf", "letrp"):
        if n.kind == "let":
            add(f"{pad}let {kn.name(n.a[0])} = {src(n.a[1], kn, ind)}", n.a[0])
            n = n.a[2]
        elif n.kind == "lett":
            add(f"{pad}let ({', '.join(kn.name(x) for x in n.a[0])}) = {src(n.a[1], kn, ind)}", n.a[0][0])
            n = n.a[2]
        elif n.kind == "letp":
            add(f"{pad}let {pat_src(n.a[0], kn)} = {src(n.a[1], kn, ind)}", pat_names(n.a[0])[0])
            n = n.a[2]
        elif n.kind == "letr":
            order = n.a[1]
            if order is None and kn.annotate and n.a[2].kind == "rec":
                order = sorted((f for f, _ in n.a[2].a[0]), reverse=True)     # agreeing annotation, fields listed in reverse order
            ann = "" if order is None else ": {" + ", ".join(f"{kn.field(f)}: float" for f in order) + "}"
            add(f"{pad}let {kn.name(n.a[0])}{ann} = {src(n.a[2], kn, ind)}", n.a[0])
            n = n.a[3]
        elif n.kind == "setf":
            add(f"{pad}{kn.name(n.a[0])}.{kn.field(n.a[1])} = {src(n.a[4], kn, ind)}", n.a[0] + "sf")
            n = n.a[5]
        elif n.kind == "letrp":
            add(f"{pad}let {{{', '.join(f'{kn.field(f)} = {kn.name(v)}' for f, v in n.a[0])}}} = {src(n.a[1], kn, ind)}", n.a[0][0][1])
            n = n.a[2]
        else:
            add(f"{pad}{kn.name(n.a[0])} = {src(n.a[1], kn, ind)}", n.a[0] + "s")
            n = n.a[2]
    add(pad + src(n, kn, ind), "tail%d" % len(lines))
    if kn.semi and not kn.comments:
        return ";".join(l.strip() for l in lines)
    return "\n".join(lines)



def braces(n, kn, ind):
    return "{\n" + block(n, kn, ind + 1) + "\n" + ("" if kn.dedent else "  " * ind) + "}"


def src(n, kn=DEFAULT, ind=0, prec=0):
    k, a = n.kind, n.a
    if k == "lit":
        return a[0]
    if k == "var":
        return kn.name(a[0])
    if k == "un":
        if a[0] == "neg":
            return f"(-{src(a[1], kn, ind, 9)})"
        return f"{a[0]}({src(a[1], kn, ind)})"
    if k == "bin":
        p = PREC[a[0]]
        # fully parenthesise operands of lower-or-equal precedence: no reliance on associativity rules
        s = f"{src(a[1], kn, ind, p + 1)} {BINSYM[a[0]]} {src(a[2], kn, ind, p + 1)}"
        return f"({s})" if (p < prec or kn.parens or prec > 0) else s
    if k == "if":
        return f"if ({src(a[0], kn, ind)}) {braces(a[1], kn, ind)} else {braces(a[2], kn, ind)}"
    if k in ("let", "lett", "set", "letp", "letr", "setf", "letrp"):
        return "(" + braces(n, kn, ind) + ")"
    if k == "rec":
        return "{" + ", ".join(f"{kn.field(f)} = {src(e, kn, ind)}" for f, e in a[0]) + "}"
    if k == "field":
        return f"{src(a[0], kn, ind, 9)}.{kn.field(a[1])}"
    if k == "recupd":
        return f"{{ {kn.name(a[0])} <- {kn.field(a[1])} = {src(a[4], kn, ind)} }}"
    if k == "tup":
        if kn.nl:
            pad = "" if kn.dedent else "  " * (ind + 2)
            return "(\n" + pad + f",\n{pad}".join(src(x, kn, ind) for x in a[0]) + ")"
        return "(" + ", ".join(src(x, kn, ind) for x in a[0]) + ")"
    if k == "proj":
        inner = src(a[0], kn, ind, 9)
        if a[0].kind not in ("var",):
            inner = f"({inner})" if not inner.startswith("(") else inner
        return f"{inner}.{a[1]}"
    if k == "call":
        args = [src(x, kn, ind) for x in a[1]]
        style = a[3] if len(a) > 3 else "plain"
        if style == "record":
            # parameter pack: named arguments, defaulted parameters may be left out (`..`)
            names, omitted = a[4], a[5]
            items = [f"{kn.name(nm)} = {ar}" for nm, ar in zip(names, args) if nm not in omitted]
            if len(items) > 1 and (hash_name(items[0]) & 1):
                items = items[::-1]          # named arguments may be written in any order
            pack = "{" + ", ".join(items + ([".."] if omitted else [])) + "}"
            return f"{kn.name(a[0])}({pack})"
        if style == "pipe" and len(args) == 1:
            return f"({args[0]} |> {kn.name(a[0])})"
        if style == "pipetuple" and len(args) >= 2:
            return f"(({', '.join(args)}) |> {kn.name(a[0])})"
        if kn.pipe and len(args) == 1:
            return f"({args[0]} |> {kn.name(a[0])})"
        if kn.nl and len(args) > 1:
            pad = "  " * (ind + 2)
            return f"{kn.name(a[0])}(\n{pad}" + f",\n{pad}".join(args) + ")"
        return f"{kn.name(a[0])}({', '.join(args)})"
    if k == "app":
        f = src(a[0], kn, ind, 9)
        if a[0].kind != "var":
            f = f"({f})"
        return f"{f}({', '.join(src(x, kn, ind) for x in a[1])})"
    if k == "lam":
        return f"|{', '.join(kn.name(x) + (':float' if kn.annotate else '') for x in a[0])}| {braces(a[1], kn, ind)}"
    if k == "self":
        return "self"
    if k == "mem":
        return f"mem({src(a[0], kn, ind)})"
    if k == "delay":
        # the maximum is a literal that the compiler truncates to a whole number of samples (`max_time as u64`, for the state
        # cell AND for the ring the back ends open): written with a fractional part at 3 sites in 7 (seeded change C03d: the
        # instruction rounded up while the layout truncated, so `delay(2.5, x, t)` overran its cell); the model gets N
        # (keyed by N, not by the site: a macro expansion re-numbers sites; off for the staging checks, whose tree comparison
        # reads literals as text)
        frac = (".0", ".5", ".0", ".25", ".0", ".75", ".0")[int(a[0]) % 7] if FRAC_DELAY and str(a[0]).isdigit() else ".0"
        return f"delay({a[0]}{frac}, {src(a[1], kn, ind)}, {src(a[2], kn, ind)})"
    if k == "now":
        return "now"
    if k == "sr":
        return "samplerate"
    raise ValueError(k)


class Fn:
    def __init__(self, name, params, ptypes, ret, body, uses_self, stateful):
        self.name, self.params, self.ptypes, self.ret, self.body = name, params, ptypes, ret, body
        self.uses_self, self.stateful = uses_self, stateful

    def with_body(self, body):
        """copy of this function with another body (keeps defaults / annotations)"""
        f = Fn(self.name, self.params, self.ptypes, self.ret, body, self.uses_self, self.stateful)
        for k in ("defaults", "annot_ret", "tuple_self", "rec"):
            if hasattr(self, k):
                setattr(f, k, getattr(self, k))
        return f

    def sx(self):
        sh = shape_sx(self.ret) if self.uses_self else "-"
        return f"(fn {self.name} ({' '.join(self.params)}) {sh} {sx(self.body)})"

    def src(self, kn=DEFAULT):
        dfl = getattr(self, "defaults", {})
        ps = ", ".join(kn.name(p) + (":float" if self.name == "dsp" or kn.annotate else "")
                       + (f" = {dfl[p]}" if p in dfl else "")
                       for p in self.params)
        rt = ""
        if kn.annotate or getattr(self, "annot_ret", False):
            rt = " -> " + type_src(self.ret)
        return f"fn {kn.name(self.name) if self.name != 'dsp' else 'dsp'}({ps}){rt} {braces(self.body, kn, 0)}"


class Prog:
    def __init__(self, globals_, fns, dsp):
        self.globals, self.fns, self.dsp = globals_, fns, dsp

    def sx(self):
        g = " ".join(f"(g {x} {sx(e)})" for x, e in self.globals)
        f = " ".join(fn.sx() for fn in self.fns)
        return f"(prog (globals {g}) (fns {f}) {self.dsp.sx()})".replace("  ", " ")

    def asx(self):
        """annotated S-expression for the Lean type checker (drv_c03): what the program text does not say — the types of
        function / lambda parameters (all numbers in this generator: the table's default) and the return types of the
        named functions that do not return a number"""
        rets = " ".join(f"({fn.name} {shape_sx(fn.ret)})" for fn in self.fns if fn.ret != F)
        # a record update `{ r <- f = e }` keeps the type of `r` in the surface language; for the type checker it is rendered as
        # `let tmp = r; tmp = (r.0, …, e, …); tmp` (same value; the assignment forces the updated tuple to have r's type)
        def recupd_typed(n):
            a = n.a
            comps = [sx(a[4]) if i == a[2] else f"(proj (var {a[0]}) {i})" for i in range(a[3])]
            return f"(let ru_{a[0]} (var {a[0]}) (set ru_{a[0]} (tup {' '.join(comps)}) (var ru_{a[0]})))"
        saved = EXT_SX.get("recupd")
        EXT_SX["recupd"] = recupd_typed
        try:
            body = self.sx()
        finally:
            if saved is None:
                del EXT_SX["recupd"]
            else:
                EXT_SX["recupd"] = saved
        # parameters whose type the program text states: a default value (always a number in this generator) types its
        # parameter — `fn f(a = 4.0) { a(1.0) }` is rejected by the real checker (since the repair of C03-K15)
        binders = " ".join(f"({q} n)" for fn in self.fns for q in fn.params if q in getattr(fn, "defaults", {}))
        # lambda parameters named `hf…` are the function-typed ones (Gen.escaping_closures): (float) -> float
        hfs = []

        def lam_params(n):
            if isinstance(n, Node):
                if n.kind == "lam":
                    hfs.extend(q for q in n.a[0] if q.startswith("hf"))
                for _, ch in children(n):
                    lam_params(ch)
        for fn in list(self.fns) + [self.dsp]:
            lam_params(fn.body)
        binders = (binders + " " + " ".join(f"({q} (fn (n) n))" for q in hfs)).strip()
        return f"(aprog {body} (binders {binders}) (rets {rets}))".replace("  ", " ")

    def src(self, kn=DEFAULT):
        # (former finding C03-K14 — a named-argument call whose argument types are still unresolved panicked `type inference
        # failed` — is repaired: programs with such calls no longer get annotated parameters)
        out = []
        for x, e in self.globals:
            out.append(f"let {kn.name(x)} = {src(e, kn)}")
        for fn in self.fns:
            out.append(fn.src(kn))
        out.append(self.dsp.src(kn))
        return "\n".join(out) + "\n"


class Gen:
    """Statement-oriented generation (idiomatic mimium): a block is a sequence of `let` / assignment statements followed by
    a tail; control flow (`if`) appears only as the right-hand side of a `let` or as a block tail; operands of operators,
    call arguments and tuple components are *simple* expressions (no blocks inside)."""

    def __init__(self, rng, profile):
        self.r = rng
        self.p = profile
        self.site = 0
        self.vid = 0
        self.fns = []
        self.stats = {}

    def bump(self, k):
        self.stats[k] = self.stats.get(k, 0) + 1

    def fresh(self, base="v"):
        self.vid += 1
        return f"{base}{self.vid}"

    def new_site(self):
        self.site += 1
        return self.site

    def lit(self):
        s = self.r.pick(NICE) if self.r.chance(3, 4) or not self.p.get("odd_literals", True) else self.r.pick(ODD)
        return Node("lit", s)

    # ---- simple expressions (float) ------------------------------------------------
    def simple(self, d, ctx):
        r = self.r
        vars_f = [v for v in ctx["vars"] if v[1] == F]
        vars_t = [v for v in ctx["vars"] if is_tuple(v[1])]
        vars_fn = [v for v in ctx["vars"] if isinstance(v[1], tuple) and v[1][0] == "fn"]
        vars_r = [v for v in ctx["vars"] if isinstance(v[1], tuple) and v[1][0] == "r"]
        notime = ctx.get("no_time")
        if d <= 0:
            opts = [("lit", 3), ("now", 0 if notime else 1)]
            if vars_f:
                opts.append(("var", 7))
            if vars_t:
                opts.append(("proj", 2))
            if vars_r:
                opts.append(("field", 3))
        else:
            opts = [("lit", 2), ("bin", 10), ("un", 2), ("now", 0 if notime else 1),
                    ("sr", 1 if self.p.get("sr", True) and not notime else 0)]
            if vars_f:
                opts.append(("var", 6))
            if vars_t:
                opts.append(("proj", 2))
            if vars_r:
                opts.append(("field", 3))
            # tuple-returning functions are called as `let t = f(..)` (simple_t); projections apply to variables -- and, under
            # the knob `call_proj`, to the call itself: `(f(x)).1 + (f(y)).0`, `g((f(x)).1, (f(y)).1)`. Two results of ONE
            # tuple-returning function are then alive at once (repaired finding G8-WSM of C01: on WASM they were the same words)
            fs = [f for f in self.fns if f.ret == F and (ctx["allow_state"] or not f.stateful)]
            if fs:
                opts.append(("call", 6))
            if self.p.get("call_proj", False) and [f for f in self.fns if is_tuple(f.ret) and (ctx["allow_state"] or not f.stateful)]:
                opts.append(("callproj", 9))
            if vars_fn:
                opts.append(("appvar", 4))
            if ctx["allow_state"]:
                opts.append(("mem", 2))
                opts.append(("delay", 2))
                if ctx.get("self_type") == F:
                    opts.append(("self", 4))
        k = r.weighted([o for o in opts if o[1] > 0])
        self.bump(k)
        if k == "lit":
            return self.lit()
        if k == "var":
            return Node("var", r.pick(vars_f)[0])
        if k == "now":
            return Node("now")
        if k == "sr":
            return Node("sr")
        if k == "bin":
            ops = [("add", 5), ("sub", 4), ("mul", 5), ("div", 2), ("lt", 1), ("le", 1), ("gt", 1), ("ge", 1),
                   ("eq", 1), ("ne", 1), ("and", 1), ("or", 1)]
            if self.p.get("modulo", False):
                # `%` (former finding G5 of C01 -- WASM computed a - trunc(a/b)*b -- is repaired): the exact remainder on both
                # back ends. The reference semantics has no `%` (it answers `error` = no prediction): VM against WASM only.
                ops.append(("mod", 6))
            op = r.weighted(ops)
            return Node("bin", op, self.simple(d - 1, ctx), self.simple(d - 1, ctx))
        if k == "un":
            op = r.pick(["neg", "sqrt", "abs", "neg", "sqrt", "abs", "floor", "ceil", "round"] if self.p.get("rounding", True) else ["neg", "sqrt", "abs"])
            if op == "round" and r.chance(1, 2):
                # exact ties k + 0.5 are where rounding modes differ
                return Node("un", "round", Node("bin", "add", Node("un", "floor", self.simple(d - 1, ctx)), Node("lit", "0.5")))
            return Node("un", op, self.simple(d - 1, ctx))
        if k == "field":
            v = r.pick(vars_r)
            fs = list(v[1][1])
            f = r.pick(fs)
            return Node("field", Node("var", v[0]), f, fs.index(f))
        if k == "proj":
            v = r.pick(vars_t)
            idx = [i for i, t in enumerate(v[1][1:]) if t == F]
            return Node("proj", Node("var", v[0]), r.pick(idx))
        if k == "call":
            f = r.pick([f for f in self.fns if f.ret == F and (ctx["allow_state"] or not f.stateful)])
            return self.mk_call(f, d, ctx)
        if k == "callproj":
            fts = [f for f in self.fns if is_tuple(f.ret) and (ctx["allow_state"] or not f.stateful)]
            last = ctx.get("last_callproj")
            # half of the time the function projected last in this body again: the aliasing shape itself
            f = last if last in fts and r.chance(1, 2) else r.pick(fts)
            ctx["last_callproj"] = f
            return self.call_proj(f, d, ctx)
        if k == "appvar":
            v = r.pick(vars_fn)
            return Node("app", Node("var", v[0]), [self.simple(d - 1, ctx) for _ in range(v[1][1])])
        if k == "mem":
            return Node("mem", self.simple(d - 1, ctx), self.new_site())
        if k == "delay":
            if self.p.get("avoid_f2", False) and ctx["delays"]:
                n = next(iter(ctx["delays"]))
            else:
                n = r.pick([2, 3, 4, 5, 8, 16, 64])
            ctx["delays"].add(n)
            tm = r.weighted([("in", 6), ("expr", 2), ("out", 1)])
            if tm == "in":
                t = Node("lit", "%d.0" % (1 + r.below(max(1, n - 1))))
            elif tm == "out":
                t = Node("lit", r.pick(["0.0", "0.5", "%d.0" % n, "%d.0" % (n + 3), "1.5", "2.7"]))
            else:
                t = self.simple(max(0, d - 2), ctx)
            return Node("delay", n, self.simple(d - 1, ctx), t, self.new_site())
        if k == "self":
            # (former finding C03-K5 — `self` whose type nothing constrains panicked the compiler — is repaired: `self`
            # appears bare as well as an operand of arithmetic)
            ctx["used_self"][0] = True
            if r.chance(1, 3):
                return Node("self")
            return Node("bin", r.pick(["add", "mul", "sub"]), Node("self"), self.simple(d - 1, ctx))
        raise ValueError(k)

    def call_proj(self, f, d, ctx):
        """`(f(args)).i…`: a call of the tuple-returning f projected down to a number (results may be nested tuples)"""
        e, t = self.mk_call(f, d, ctx), f.ret
        while t != F:
            i = self.r.below(len(t) - 1)
            e, t = Node("proj", e, i), t[1 + i]
        return e

    def param_sensitive(self, fn):
        """the pair-returning fn with both components of every result depending on its first parameter, so that two calls
        with different arguments return different pairs"""
        a = Node("var", fn.params[0])

        def sens(n):
            if n.kind in ("let", "lett", "set", "letp", "letr", "setf", "letrp"):
                return Node(n.kind, *(list(n.a[:-1]) + [sens(n.a[-1])]))
            if n.kind == "if":
                return Node("if", n.a[0], sens(n.a[1]), sens(n.a[2]))
            if n.kind == "tup":
                c = n.a[0]
            else:
                xs = [self.fresh(), self.fresh()]
                c = [Node("var", x) for x in xs]
            t = Node("tup", [Node("bin", "add", c[0], a), Node("bin", "sub", c[1], a)])
            return t if n.kind == "tup" else Node("lett", xs, n, t)
        return fn.with_body(sens(fn.body))

    def mk_call(self, f, d, ctx):
        """a direct call of f in one of the surface styles: positional, pipe, tuple pipe, parameter pack with defaults"""
        r = self.r
        dfl = getattr(f, "defaults", {})
        nargs = len(f.ptypes)
        style, omitted = "plain", []
        if self.p.get("call_styles", True) and not getattr(f, "tuple_self", False) and not getattr(f, "rec", False):
            opts = [("plain", 6)]
            if nargs == 1:
                opts.append(("pipe", 2))
            if nargs >= 2:
                opts.append(("pipetuple", 1))
            if nargs >= 2 and dfl:       # (a one-field pack for a one-parameter function is rejected with a diagnostic)
                opts.append(("record", 4))
            style = r.weighted(opts)
        if style == "record" and self.p.get("omit_defaults", True):
            # (former finding C02-K12 — a pack that omits a defaulted parameter passed 0 / garbage for it — is repaired:
            # defaulted parameters are left out at random, possibly all of them: `f({..})`)
            omitted = [q for q in f.params if q in dfl and r.chance(1, 2)]
        # the reference semantics gets the default's literal for an omitted parameter; no expression is generated for it
        # (its `self` / `mem` / `delay` would be counted as state of the caller although the source does not contain them)
        args = [Node("lit", dfl[q]) if q in omitted else self.simple(d - 1, ctx) for q in f.params]
        if getattr(f, "rec", False):
            args[0] = Node("lit", "%d.0" % r.below(4))          # recursion depth: a small literal
        return Node("call", f.name, args, self.new_site(), style, list(f.params), omitted)

    def cond(self, d, ctx):
        if self.p.get("numeric_cond", True) and self.r.chance(1, 4):
            # a plain number as condition: true iff > 0 (negative and zero values take the else arm)
            return Node("bin", self.r.pick(["sub", "add", "mul"]), self.simple(d, ctx), self.simple(max(0, d - 1), ctx))
        op = self.r.pick(["lt", "le", "gt", "ge", "eq", "ne"])
        return Node("bin", op, self.simple(d, ctx), self.simple(d, ctx))

    def simple_t(self, t, d, ctx):
        """tuple-typed simple expression"""
        r = self.r
        vars_t = [v for v in ctx["vars"] if v[1] == t]
        opts = [("tup", 6)]
        if vars_t:
            opts.append(("var", 4))
        fs = [f for f in self.fns if f.ret == t and (ctx["allow_state"] or not f.stateful) and not getattr(f, "tuple_self", False)]
        if fs and d > 0:
            opts.append(("call", 4))
        k = r.weighted(opts)
        self.bump("t_" + k)
        if k == "tup":
            return Node("tup", [self.simple(d - 1, ctx) for _ in t[1:]])
        if k == "var":
            return Node("var", r.pick(vars_t)[0])
        if k == "call":
            f = r.pick(fs)
            return self.mk_call(f, d, ctx)
        ctx["used_self"][0] = True
        return Node("self")

    # ---- blocks ------------------------------------------------------------------
    def block(self, t, d, ctx, nstmts=None):
        """returns the AST of `stmts; tail` of type t"""
        r = self.r
        ctx = dict(ctx, vars=list(ctx["vars"]))
        n = r.below(1 + min(4, d + 1)) if nstmts is None else nstmts
        stmts = []
        must_use = []       # values that must reach the block's result (so that a wrong one is visible)
        for _ in range(n):
            # known finding F20 (WASM: an `if` arm whose value comes out of a tuple built in that arm yields 0 when the
            # other arm is taken): no tuples are created inside `if` arms and `if` is float-typed in this profile
            opts = [("let", 6), ("letif", 2 if d > 0 else 0), ("lettup", 2 if self.p.get("tuples", True) else 0)]
            if self.p.get("lambdas", True) and d > 0 and ctx.get("lam_depth", 1 if ctx.get("in_lambda") else 0) < self.p.get("lam_depth", 1):
                opts.append(("letlam", 2 if not ctx.get("in_lambda") else 5))
            if self.p.get("escaping", False) and d > 0 and ctx.get("lam_depth", 0) + 2 <= self.p.get("lam_depth", 1):
                opts.append(("letesc", 3))
            mut = [v for v in ctx["vars"] if v[1] == F and v[2]]
            if self.p.get("assign", True) and mut:
                opts.append(("set", 2))
            mutt = [v for v in ctx["vars"] if isinstance(v[1], tuple) and v[1][0] == "t" and v[2]]
            if self.p.get("tuple_assign", False) and mutt:
                opts.append(("sett", 3))
            recs = [v for v in ctx["vars"] if isinstance(v[1], tuple) and v[1][0] == "r"]
            if self.p.get("records", self.p.get("tuples", True)):
                opts.append(("letrec", 2))
                if recs:
                    opts += [("setf", 2), ("recupd", 1), ("letrp", 1)]
            tsf = [f for f in self.fns if getattr(f, "tuple_self", False)] if ctx["allow_state"] else []
            if tsf:
                opts.append(("letpcall", 4))
            fts = [f for f in self.fns if is_tuple(f.ret) and (ctx["allow_state"] or not f.stateful)] if self.p.get("call_proj", False) else []
            if fts and d > 0:
                opts.append(("letalias", 6))
            k = r.weighted([o for o in opts if o[1] > 0])
            self.bump("s_" + k)
            if k == "letalias":
                # two results of ONE tuple-returning function alive at once (repaired finding G8-WSM of C01): operands of one
                # operation, or arguments of one call; the value reaches the block's result
                f = r.pick(fts)
                a, b = self.call_proj(f, d, ctx), self.call_proj(f, d, ctx)
                gs = [g for g in self.fns if g.ret == F and len(g.params) >= 2 and (ctx["allow_state"] or not g.stateful)
                      and not getattr(g, "rec", False)]
                if gs and r.chance(2, 5):
                    g = r.pick(gs)
                    val = Node("call", g.name, [a, b] + [self.simple(d - 1, ctx) for _ in g.params[2:]], self.new_site(), "plain", list(g.params), [])
                    self.bump("alias_args")
                else:
                    val = Node("bin", r.pick(["add", "sub", "mul"]), a, b)
                    self.bump("alias_operands")
                x = self.fresh()
                stmts.append(("let", x, val))
                ctx["vars"].append((x, F, True))
                if t == F:
                    must_use.append(x)
                continue
            if k == "letrec":
                fields = r.pick([["x", "y"], ["a", "b", "c"], ["freq", "amp"], ["p", "q", "r"], ["y", "x"], ["zz", "k", "m"]])
                order = list(fields)
                lit_order = list(fields)
                if r.chance(1, 2):
                    lit_order = sorted(fields, key=lambda f: r.next())      # literal written in any field order
                ann = None
                if r.chance(1, 2):
                    ann = sorted(fields, key=lambda f: r.next())            # annotation in any (e.g. non-alphabetical) order
                x = self.fresh("r")
                stmts.append(("letr", x, ann, Node("rec", [(f, self.simple(d, ctx)) for f in lit_order])))
                ctx["vars"].append((x, ("r", tuple(sorted(fields))), True))
                continue
            if k in ("setf", "recupd", "letrp"):
                v = r.pick(recs)
                fs = list(v[1][1])
                if k == "letrp":
                    binds = [(f, self.fresh()) for f in sorted(fs, key=lambda f: r.next())]
                    stmts.append(("letrp", binds, Node("var", v[0])))
                    ctx["vars"] += [(b, F, False) for _, b in binds]
                    continue
                f = r.pick(fs)
                idx = fs.index(f)
                if k == "setf":
                    if not v[2]:
                        continue
                    stmts.append(("setf", v[0], f, idx, len(fs), self.simple(d, ctx)))
                else:
                    q = self.fresh("r")
                    stmts.append(("let", q, Node("recupd", v[0], f, idx, len(fs), self.simple(d, ctx))))
                    ctx["vars"].append((q, v[1], True))
                continue
            if k == "letesc":
                self.escaping_closures(d, ctx, stmts, must_use)
                continue
            if k == "letpcall":
                f = r.pick(tsf)
                pat = self.fresh_pattern(f.ret)
                stmts.append(("letp", pat, Node("call", f.name, [self.simple(d, ctx) for _ in f.ptypes], self.new_site())))
                ctx["vars"] += [(x, F, False) for x in pat_names(pat)]
                continue
            if k == "let":
                x = self.fresh()
                stmts.append(("let", x, self.simple(d, ctx)))
                ctx["vars"].append((x, F, True))
            elif k == "letif":
                x = self.fresh()
                tt = F if (r.chance(4, 5) or self.p.get("avoid_f20", False)) else T(F, F)
                stmts.append(("let", x, self.ifexpr(tt, d - 1, ctx)))
                ctx["vars"].append((x, tt, tt == F))
            elif k == "lettup":
                m = 2 + r.below(2)
                tt = T(*([F] * m))
                if r.chance(1, 2):
                    x = self.fresh("t")
                    stmts.append(("let", x, self.simple_t(tt, d, ctx)))
                    ctx["vars"].append((x, tt, bool(self.p.get("tuple_assign", False)) and not ctx.get("in_lambda")))
                else:
                    xs = [self.fresh() for _ in range(m)]
                    stmts.append(("lett", xs, self.simple_t(tt, d, ctx)))
                    ctx["vars"] += [(x, F, False) for x in xs]
            elif k == "letlam":
                if self.p.get("tuple_assign", False) and not ctx.get("in_lambda") and r.chance(1, 2) and \
                        not [v for v in ctx["vars"] if isinstance(v[1], tuple) and v[1][0] == "t" and v[2]]:
                    # make sure there is a whole tuple variable the closure can share with its creator
                    tt0 = T(*([F] * (2 + r.below(2))))
                    x0 = self.fresh("t")
                    stmts.append(("let", x0, self.simple_t(tt0, d, ctx)))
                    ctx["vars"].append((x0, tt0, True))
                m = 1 + r.below(2)
                ps = [self.fresh("p") for _ in range(m)]
                # lambdas of this fragment are stateless; they capture (and may assign) enclosing variables
                # known finding G3 (VM reads a stale value after a closure assigned a captured variable): captured
                # variables are read-only inside closures unless the profile asks for `closure_assign`
                cap = ctx["vars"] if self.p.get("closure_assign", False) else [(n, t, False) for (n, t, _) in ctx["vars"]]
                # (former finding C03-K11 — assigning a FIELD of a captured record inside a closure panicked the compiler —
                # is repaired: captured records are assignable under `closure_assign` like captured numbers)
                # (former finding C01-G9 / C18-D7 — WASM and the emitted Rust captured a PARAMETER by value, so an inner closure's
                # assignment to it was lost — is repaired: parameters are assignable under `closure_assign` like let variables)
                lctx = dict(ctx, vars=cap + [(q, F, self.p.get("closure_assign", False)) for q in ps], allow_state=False, self_type=None, in_lambda=True,
                            lam_depth=ctx.get("lam_depth", 1 if ctx.get("in_lambda") else 0) + 1)
                if self.p.get("stateful_lambdas", False) and ctx["allow_state"]:
                    # (former finding F11 of C01 -- on WASM a closure created inside dsp inherited the state of the previous
                    # sample's instance -- is repaired) the closure body uses `self`, `mem`, `delay` and stateful functions; every
                    # new closure instance owns fresh state. The reference semantics has no stateful closures (it answers
                    # `error`, which the checks read as "no prediction"): VM against WASM only.
                    lctx.update(allow_state=True, self_type=F, delays=set(), used_self=[False])
                body = self.block(F, d - 1, lctx)
                fname = self.fresh("f")
                stmts.append(("let", fname, Node("lam", ps, body)))
                ctx["vars"].append((fname, ("fn", m), False))
                if self.p.get("write_after_capture", True) and self.p.get("assign", True) and r.chance(1, 2):
                    # the enclosing function writes a variable the closure has captured, then applies the closure:
                    # the closure shares the variable (it must see the new value), it does not hold a copy
                    import re
                    words = set(re.findall(r"[A-Za-z_][A-Za-z0-9_]*", src(body)))
                    shared = [v for v in ctx["vars"] if v[1] == F and v[2] and v[0] in words]
                    shared = shared or [v for v in ctx["vars"] if v[1] == F and v[2]]
                    tshared = [v for v in ctx["vars"] if isinstance(v[1], tuple) and v[1][0] == "t" and v[2]] if self.p.get("tuple_assign", False) else []
                    if tshared and r.chance(2, 3):
                        v = r.pick(tshared)
                        stmts[-1] = ("let", fname, Node("lam", ps, self.add_to_tail(body, Node("proj", Node("var", v[0]), r.below(len(v[1]) - 1)))))
                        stmts.append(("set", v[0], Node("tup", [Node("bin", "add", self.simple(d - 1, ctx), Node("lit", r.pick(["1.5", "100.0", "0.25"])))
                                                                for _ in v[1][1:]])))
                        y = self.fresh()
                        stmts.append(("let", y, Node("app", Node("var", fname), [self.simple(d, ctx) for _ in ps])))
                        ctx["vars"].append((y, F, True))
                        must_use.append(y)
                        self.bump("s_write_after_capture_tuple")
                    elif shared:
                        v = r.pick(shared)
                        # the closure's result depends on the shared variable
                        stmts[-1] = ("let", fname, Node("lam", ps, self.add_to_tail(body, Node("var", v[0]))))
                        stmts.append(("set", v[0], self.simple(d, ctx)))
                        y = self.fresh()
                        stmts.append(("let", y, Node("app", Node("var", fname), [self.simple(d, ctx) for _ in ps])))
                        ctx["vars"].append((y, F, True))
                        must_use.append(y)
                        self.bump("s_write_after_capture")
            elif k == "sett":
                # a tuple variable is assigned as a whole; when a closure reads it, the closure shares the variable
                v = r.pick(mutt)
                stmts.append(("set", v[0], self.simple_t(v[1], d, ctx)))
            else:
                v = r.pick(mut)
                stmts.append(("set", v[0], self.simple(d, ctx)))
        # tail
        if d > 0 and r.chance(1, 6) and (t == F or not self.p.get("avoid_f20", False)):
            tail = self.ifexpr(t, d - 1, ctx)
        elif t == F:
            tail = self.simple(d, ctx)
        else:
            tail = self.simple_t(t, d, ctx)
        if t == F:
            for y in must_use:
                tail = Node("bin", "add", tail, Node("var", y))
        for st in reversed(stmts):
            if st[0] == "let":
                tail = Node("let", st[1], st[2], tail)
            elif st[0] == "lett":
                tail = Node("lett", st[1], st[2], tail)
            elif st[0] == "letp":
                tail = Node("letp", st[1], st[2], tail)
            elif st[0] == "letr":
                tail = Node("letr", st[1], st[2], st[3], tail)
            elif st[0] == "setf":
                tail = Node("setf", st[1], st[2], st[3], st[4], st[5], tail)
            elif st[0] == "letrp":
                tail = Node("letrp", st[1], st[2], tail)
            else:
                tail = Node("set", st[1], st[2], tail)
        return tail

    def escaping_closures(self, d, ctx, stmts, must_use):
        """a closure created INSIDE a closure that leaves it: returned from the middle closure and applied after the middle
        closure returned (`ret`), stored in a tuple next to a sibling and a number (`tup`), or handed to a higher-order closure
        that the middle closure has itself captured (`hof`).  The inner closure reads — and under `closure_assign` assigns — a
        variable `v` of the OUTERMOST function (two closure levels up); the outermost function writes `v` between the uses, so
        every party must refer to the one cell of `v` (upvalue of an upvalue), also after the middle frame is gone."""
        r = self.r
        assign = self.p.get("closure_assign", False)
        mut = [x for x in ctx["vars"] if x[1] == F and x[2]]
        if not mut:
            x0 = self.fresh()
            stmts.append(("let", x0, self.simple(d, ctx)))
            ctx["vars"].append((x0, F, True))
            mut = [(x0, F, True)]
        v = r.pick(mut)[0]
        kind = r.pick(["ret", "ret", "tup", "hof"])
        self.bump("s_escaping_" + kind)
        p = self.fresh("p")
        cap = ctx["vars"] if assign else [(n, t, False) for (n, t, _) in ctx["vars"]]
        mctx = dict(ctx, vars=cap + [(p, F, assign)], allow_state=False, self_type=None, in_lambda=True,
                    lam_depth=ctx.get("lam_depth", 0) + 1)

        def inner():
            q = self.fresh("p")
            ictx = dict(mctx, vars=mctx["vars"] + [(q, F, assign)], lam_depth=mctx["lam_depth"] + 1)
            body = self.add_to_tail(self.block(F, max(0, d - 2), ictx), Node("var", v))
            if assign and r.chance(2, 3):
                rhs = Node("bin", r.pick(["add", "sub", "mul"]), Node("var", v), r.pick([Node("var", q), Node("var", p), Node("lit", "1.0")]))
                body = Node("set", v, rhs, body)
            return self.fresh("f"), Node("lam", [q], body)

        def write_v():
            if self.p.get("assign", True) and r.chance(2, 3):
                stmts.append(("set", v, self.simple(d, ctx)))

        def use(fn):
            y = self.fresh()
            stmts.append(("let", y, Node("app", Node("var", fn), [self.simple(d - 1, ctx)])))
            ctx["vars"].append((y, F, True))
            must_use.append(y)

        mk = self.fresh("f")
        g, glam = inner()
        if kind == "ret":
            mbody = Node("let", g, glam, Node("var", g))
            if assign and r.chance(1, 3):     # the middle closure writes the variable after the inner one captured it
                mbody = Node("let", g, glam, Node("set", v, Node("bin", "add", Node("var", v), Node("var", p)), Node("var", g)))
            stmts.append(("let", mk, Node("lam", [p], mbody)))
            h = self.fresh("f")
            stmts.append(("let", h, Node("app", Node("var", mk), [self.simple(d - 1, ctx)])))
            write_v()
            use(h)
            if r.chance(1, 2):
                write_v()
                use(h)
            if r.chance(1, 3):                # a second instance made by the same middle closure shares `v`, not `p`
                h2 = self.fresh("f")
                stmts.append(("let", h2, Node("app", Node("var", mk), [self.simple(d - 1, ctx)])))
                use(h2)
                use(h)
                ctx["vars"].append((h2, ("fn", 1), False))
            ctx["vars"].append((h, ("fn", 1), False))
        elif kind == "tup":
            g2, g2lam = inner()
            mbody = Node("let", g, glam, Node("let", g2, g2lam, Node("tup", [Node("var", g), Node("var", g2), self.simple(max(0, d - 2), mctx)])))
            stmts.append(("let", mk, Node("lam", [p], mbody)))
            ha, hb, c = self.fresh("f"), self.fresh("f"), self.fresh()
            stmts.append(("lett", [ha, hb, c], Node("app", Node("var", mk), [self.simple(d - 1, ctx)])))
            ctx["vars"].append((c, F, False))
            must_use.append(c)
            use(ha)
            write_v()
            use(hb)
            if r.chance(1, 2):
                use(ha)
            ctx["vars"] += [(ha, ("fn", 1), False), (hb, ("fn", 1), False)]
        else:
            hf, x = self.fresh("hf"), self.fresh("p")       # `hf…` names a parameter of type (float)->float (see Prog.asx)
            ap = self.fresh("f")
            apbody = Node("bin", r.pick(["add", "sub", "mul"]), Node("app", Node("var", hf), [Node("var", x)]),
                          Node("app", Node("var", hf), [Node("bin", "add", Node("var", x), Node("lit", "1.0"))]))
            stmts.append(("let", ap, Node("lam", [hf, x], apbody)))
            mbody = Node("let", g, glam, Node("app", Node("var", ap), [Node("var", g), self.simple(max(0, d - 2), mctx)]))
            stmts.append(("let", mk, Node("lam", [p], mbody)))
            use(mk)
            write_v()
            use(mk)
            ctx["vars"].append((mk, ("fn", 1), False))

    def ifexpr(self, t, d, ctx):
        actx = ctx if not self.p.get("avoid_f3", False) else dict(ctx, allow_state=False)
        actx = dict(actx, in_arm=True)
        then, els = self.block(t, d, actx), self.block(t, d, actx)
        if self.p.get("avoid_f20", False) and t == F:
            then = self.no_bare_proj_tail(then)
        return Node("if", self.cond(max(d, 1), ctx), then, els)

    def no_bare_proj_tail(self, n):
        """known finding F20: a then-arm whose value is a bare tuple projection makes the WASM backend yield 0 when the
        else-arm is taken; the profile keeps such tails arithmetic"""
        if n.kind in ("let", "lett", "set", "letp", "letr", "setf", "letrp"):
            return Node(n.kind, *(list(n.a[:-1]) + [self.no_bare_proj_tail(n.a[-1])]))
        if n.kind == "field":
            return Node("bin", "add", n, Node("lit", "0.0"))
        if n.kind == "if":
            return Node("if", n.a[0], self.no_bare_proj_tail(n.a[1]), self.no_bare_proj_tail(n.a[2]))
        if n.kind == "proj":
            return Node("bin", "add", n, Node("lit", "0.0"))
        return n

    def fresh_pattern(self, t):
        return self.fresh() if t == F else [self.fresh_pattern(x) for x in t[1:]]

    def gen_tuple_self_fn(self, name, globals_):
        """fn name(a..) -> T { let PAT = self; (leaf exprs…) } with T a (possibly nested) tuple: tuple-valued `self`"""
        r = self.r
        shapes = [T(F, F), T(F, F, F), T(T(F, F), F), T(F, T(F, F)), T(T(F, F), T(F, F)), T(T(F, T(F, F)), F)]
        ret = r.pick(shapes)
        ps = [self.fresh("a") for _ in range(r.below(2))]
        pat = self.fresh_pattern(ret)
        ctx = dict(vars=list(globals_) + [(q, F, False) for q in ps] + [(x, F, False) for x in pat_names(pat)],
                   allow_state=False, self_type=None, delays=set(), used_self=[True])

        def build(t):
            if t == F:
                return Node("bin", r.pick(["add", "sub", "mul"]), self.simple(1, ctx), self.simple(1, ctx))
            return Node("tup", [build(x) for x in t[1:]])
        body = Node("letp", pat, Node("self"), build(ret))
        fn = Fn(name, ps, [F] * len(ps), ret, body, True, True)
        fn.annot_ret = True
        fn.tuple_self = True
        return fn

    def gen_fn(self, name, nparams, ret, depth, stateful, globals_):
        ps = [self.fresh("a") for _ in range(nparams)]
        used_self = [False]
        ctx = dict(vars=list(globals_) + [(q, F, self.p.get("closure_assign", False)) for q in ps], allow_state=stateful,
                   self_type=ret if stateful and self.p.get("self", True) else None, delays=set(), used_self=used_self)
        s0 = self.site
        body = self.block(ret, depth, ctx)
        defaults = {}
        if name != "dsp" and self.p.get("defaults", True):
            for q in reversed(ps):                      # trailing parameters only
                if self.r.chance(1, 3):
                    defaults[q] = self.r.pick(NICE)
                else:
                    break
        if used_self[0] and ret == F and self.p.get("avoid_f18", False):
            # (former finding F18 — WASM rejected a `self` function whose result is a bare tuple projection — is repaired,
            # /repo 3a045da: the result of a `self` function is no longer forced to be an arithmetic expression)
            body = self.arith_tail(body)
        fn = Fn(name, ps, [F] * nparams, ret, body, used_self[0], self.site > s0 or used_self[0])
        fn.defaults = defaults
        return fn

    def add_to_tail(self, n, extra):
        """`n` with `+ extra` applied to every value it can return"""
        if n.kind in ("let", "lett", "set", "letp", "letr", "setf", "letrp"):
            return Node(n.kind, *(list(n.a[:-1]) + [self.add_to_tail(n.a[-1], extra)]))
        if n.kind == "if":
            return Node("if", n.a[0], self.add_to_tail(n.a[1], extra), self.add_to_tail(n.a[2], extra))
        return Node("bin", "add", n, extra)

    def arith_tail(self, n):
        if n.kind in ("let", "lett", "set", "letp", "letr", "setf", "letrp"):
            return Node(n.kind, *(list(n.a[:-1]) + [self.arith_tail(n.a[-1])]))
        if n.kind == "if":
            return Node("if", n.a[0], self.arith_tail(n.a[1]), self.arith_tail(n.a[2]))
        if n.kind == "bin":
            return n
        return Node("bin", "add", n, Node("lit", "0.0"))

    def gen_prog(self):
        r = self.r
        globals_, genv = [], []
        for i in range(r.below(3) if self.p.get("globals", True) else 0):
            x = f"g{i}"
            ctx = dict(vars=list(genv), allow_state=False, self_type=None, delays=set(), used_self=[False], no_time=True)
            globals_.append((x, self.simple(1 + r.below(2), ctx)))
            genv.append((x, F, False))
        for i in range(r.below(self.p.get("max_fns", 4) + 1)):
            if self.p.get("tuple_self", self.p.get("tuples", True)) and r.chance(1, 5):
                self.fns.append(self.gen_tuple_self_fn(f"f{i}", genv))
                continue
            if "tuple_ret_pct" in self.p:
                ret = T(F, F) if r.chance(self.p["tuple_ret_pct"], 100) else F
            else:
                ret = F if (r.chance(4, 5) or not self.p.get("tuples", True)) else T(F, F)
            stateful = r.chance(self.p.get("stateful_pct", 60), 100)
            if self.p.get("call_proj", False) and ret != F:
                self.fns.append(self.param_sensitive(self.gen_fn(f"f{i}", 1 + r.below(2), ret, 1 + r.below(self.p.get("depth", 3)), stateful, genv)))
                continue
            self.fns.append(self.gen_fn(f"f{i}", r.below(3), ret, 1 + r.below(self.p.get("depth", 3)), stateful, genv))
        # (former finding C03-K6 — a dsp with two parameters crashed at run time — is repaired: up to two input channels)
        nin = r.weighted([(0, 5), (1, 4), (2, 2)]) if self.p.get("inputs", True) else 0
        ret = F if (r.chance(3, 4) or not self.p.get("tuples", True)) else T(F, F)
        if self.p.get("recursion", False) and r.chance(3, 4):
            self.fns.append(self.gen_rec_fn(f"f{len(self.fns)}r", genv))
        dsp = self.gen_fn("dsp", nin, ret, 1 + r.below(self.p.get("depth", 3)), True, genv)
        return Prog(globals_, list(self.fns), dsp)

    def gen_rec_fn(self, name, globals_):
        """a stateless function that calls itself a literal number of times:
        fn f(n, x){ if (n > 0.0) { let r = f(n - 1.0, E1[x]) ; E2[r, x, n] } else { E3[x] } }"""
        n, x, rv = self.fresh("a"), self.fresh("a"), self.fresh()
        ctx = dict(vars=list(globals_) + [(x, F, False)], allow_state=False, self_type=None, delays=set(), used_self=[False], no_time=True)
        e1 = self.simple(1, ctx)
        base = self.simple(1, ctx)
        ctx2 = dict(ctx, vars=ctx["vars"] + [(rv, F, False), (n, F, False)])
        e2 = Node("bin", self.r.pick(["add", "mul", "sub"]), Node("var", rv), self.simple(1, ctx2))
        rec = Node("call", name, [Node("bin", "sub", Node("var", n), Node("lit", "1.0")), e1], self.new_site())
        body = Node("if", Node("bin", "gt", Node("var", n), Node("lit", "0.0")), Node("let", rv, rec, e2), base)
        fn = Fn(name, [n, x], [F, F], F, body, False, False)
        fn.rec = True
        fn.defaults = {}
        return fn


FRAC_DELAY = True      # write delay maxima with a fractional part (see `src`, kind "delay")


PROFILES = {
    # the space where C02 must hold (stateful constructs inside `if` arms included since the repair of F3)
    "core": dict(),
    # scalar programs with state: the fragment on which VM, WASM and the reference semantics agree on the pinned tree
    "scalar": dict(lambdas=False, tuples=False, records=False),
    "records": dict(lambdas=False, tuples=False, records=True),
    "scalar_tself": dict(lambdas=False, tuples=False, tuple_self=True),
    "scalar_deep": dict(lambdas=False, tuples=False, depth=5, max_fns=5),
    "closure_assign": dict(closure_assign=True),
    "scalar_nr": dict(lambdas=False, tuples=False, records=False, rounding=False),
    "core_nr": dict(rounding=False),
    "deep_nr": dict(depth=5, max_fns=5, rounding=False),
    "closure_assign_nr": dict(closure_assign=True, rounding=False),
    "nolam": dict(lambdas=False),
    # projections of calls of tuple-returning functions as operands and arguments (two results of one function alive at once:
    # repaired finding G8-WSM of C01), half of the named functions return a pair
    "callproj": dict(lambdas=False, call_proj=True, tuple_ret_pct=50, max_fns=5),
    "callproj_lam": dict(call_proj=True, tuple_ret_pct=50, max_fns=5),
    "notup": dict(tuples=False),
    "stateless": dict(stateful_pct=0, self=False),
    "deep": dict(depth=5, max_fns=5),
    # streams formerly aimed AT findings F2 / F3 (repaired): ordinary streams now, kept under their names (own seeds)
    "f2": dict(avoid_f2=False),
    "f3": dict(avoid_f3=False),
    # aggregate pressure (tools/gen/aggrgen.py): many live multi-word values, writes into their middles, single-word results
    # of stateful operations in between, every leaf read back at the end
    # core + one stateless function that calls itself (a literal number of times)
    # lambdas inside lambdas (a closure created by a closure captures variables of every enclosing level); `_assign`: and assigns them
    "rec": dict(recursion=True),
    # lambdas inside lambdas (a closure created by a closure captures variables of every enclosing level); `_assign`: and assigns them;
    # `escaping`: inner closures that leave the middle one (returned, in a tuple, handed to a higher-order closure — Gen.escaping_closures)
    "nested": dict(lam_depth=3, depth=4, escaping=True),
    "nested_assign": dict(lam_depth=3, depth=4, closure_assign=True, escaping=True),
    "nested_nr": dict(lam_depth=3, depth=4, escaping=True, rounding=False),
    "nested_assign_nr": dict(lam_depth=3, depth=4, closure_assign=True, escaping=True, rounding=False),
    "statelam": dict(stateful_lambdas=True),
    "modulo": dict(lambdas=False, tuples=False, records=False, modulo=True),
    "tupassign": dict(tuple_assign=True),
    "tupassign_nr": dict(tuple_assign=True, rounding=False),
    "aggr": dict(gen="aggr"),
    "aggr_nofn": dict(gen="aggr", fn_fields=False),
}


# (former finding G7 of C01 -- on WASM a bare `self` stored as a tuple component was projected out as the ADDRESS of its slot -- is
# repaired: programs of its class `bare_self_in_tuple` are no longer rejected by `make_case`, in any profile)
for _prof in PROFILES.values():
    _prof.setdefault("avoid_g7", False)


def est_cost(p):
    """static estimate of the number of AST nodes one dsp call evaluates (calls and closure applications multiply):
    keeps generated programs cheap enough for the reference evaluator"""
    fcost = {}

    def cost(n, lam):
        k = n.kind
        c = 1
        if k == "call":
            c += fcost.get(n.a[0], 1)
        if k == "app" and n.a[0].kind == "var":
            c += lam.get(n.a[0].a[0], 1)
        if k == "let" and n.a[1].kind == "lam":
            body_cost = cost(n.a[1].a[1], lam)
            lam = dict(lam)
            lam[n.a[0]] = body_cost
            return c + cost(n.a[2], lam)
        if k == "lam":
            return c            # creating a closure is cheap; its body is paid at application
        for _, ch in children(n):
            c += cost(ch, lam)
        return min(c, 10 ** 12)
    for f in p.fns:
        fcost[f.name] = cost(f.body, {})
    return cost(p.dsp.body, {})


MAX_COST = 40000


def make_case(seed, idx, profile="core", times=24):
    for attempt in range(50):
        r = Rng((seed << 20) ^ idx ^ (hash_name(profile) << 40) ^ (attempt << 52))
        if PROFILES[profile].get("gen") == "aggr":
            import aggrgen
            g = aggrgen.AggrGen(r, dict(PROFILES[profile]))
        else:
            g = Gen(r, dict(PROFILES[profile]))
        p = g.gen_prog()
        # (former findings G3 / G3b — a closure bound in an inner block turned the shared cell of a variable its function still
        # assigns into a snapshot — and G6 — an upvalue of an upvalue was a copy — are repaired (UPV-1, UPV-2): their class
        # predicates `stale_capture_risk` / `nested_assign_risk` no longer reject anything, members are only counted)
        if est_cost(p) <= MAX_COST and not (PROFILES[profile].get("avoid_g7", True) and bare_self_in_tuple(p)):
            break
    if PROFILES[profile].get("gen") != "aggr":
        if nested_assign_risk(p):
            g.bump("class_former_g6_nested_assign")
        if stale_capture_risk(p):
            g.bump("class_former_g3_stale_capture")
    nin = len(p.dsp.params)
    inputs = []
    for t in range(times):
        inputs.append([r.pick([0.0, 1.0, -1.0, 0.5, 2.0, 3.25, -0.75, 100.0]) + (t if r.chance(1, 2) else 0) for _ in range(nin)])
    # members of the classes of repaired findings, counted (G7: no longer rejected, see below PROFILES; G8-WSM: tuple results)
    if PROFILES[profile].get("gen") != "aggr":
        if bare_self_in_tuple(p):
            g.stats["class_former_g7_bare_self_in_tuple"] = g.stats.get("class_former_g7_bare_self_in_tuple", 0) + 1
        if same_tuple_fn_called_twice(p):
            g.stats["class_former_g8_same_tuple_fn_called_twice"] = g.stats.get("class_former_g8_same_tuple_fn_called_twice", 0) + 1
    return p, inputs, g.stats


def hash_name(s):
    h = 0
    for c in s:
        h = (h * 131 + ord(c)) & 0xFFFF
    return h


def inputs_field(inputs):
    if not inputs or not inputs[0]:
        return "-"
    return ";".join(",".join(hex16(f64bits(x)) for x in smp) for smp in inputs)


if __name__ == "__main__":
    import sys
    seed = int(sys.argv[1]) if len(sys.argv) > 1 else 1
    for i in range(int(sys.argv[2]) if len(sys.argv) > 2 else 3):
        p, inputs, st = make_case(seed, i, sys.argv[3] if len(sys.argv) > 3 else "core")
        print(p.src())
        print(p.sx())
        print(inputs_field(inputs))
        print()


# ---- shrinking (delta debugging on the AST) ------------------------------------------

def children(n):
    """(index path element, child) pairs of a node"""
    out = []
    if n.kind == "rec":
        return [((0, j), e) for j, (_, e) in enumerate(n.a[0])]
    for i, x in enumerate(n.a):
        if isinstance(x, Node):
            out.append(((i,), x))
        elif isinstance(x, list) and x and isinstance(x[0], Node):
            for j, y in enumerate(x):
                out.append(((i, j), y))
    return out


def replace_child(n, key, new):
    a = list(n.a)
    if n.kind == "rec":
        l = list(a[0])
        l[key[1]] = (l[key[1]][0], new)
        return Node("rec", l)
    if len(key) == 1:
        a[key[0]] = new
    else:
        l = list(a[key[0]])
        l[key[1]] = new
        a[key[0]] = l
    return Node(n.kind, *a)


def candidates(n):
    """simpler replacements for node n (may be ill-typed: the predicate filters)"""
    c = [ch for _, ch in children(n)]
    if n.kind != "lit":
        c.append(Node("lit", "1.0"))
    if n.kind == "lit" and n.a[0] != "1.0":
        c.append(Node("lit", "1.0"))
    return c


def shrink_node(n, rebuild, pred, budget):
    """try to simplify n in place; rebuild(new_n) gives the whole program; returns the simplified node"""
    changed = True
    while changed and budget[0] > 0:
        changed = False
        for cand in candidates(n):
            budget[0] -= 1
            if budget[0] <= 0:
                break
            if size(cand) < size(n) and pred(rebuild(cand)):
                n = cand
                changed = True
                break
    for key, ch in children(n):
        if budget[0] <= 0:
            break
        cur = n
        new_ch = shrink_node(ch, lambda x, cur=cur, key=key: rebuild(replace_child(cur, key, x)), pred, budget)
        n = replace_child(n, key, new_ch)
    return n


def size(n):
    return 1 + sum(size(ch) for _, ch in children(n))


def prog_size(p):
    return sum(size(f.body) for f in p.fns) + size(p.dsp.body) + sum(size(e) for _, e in p.globals)


def shrink(p, pred, budget=400):
    """greedy shrink of a program while pred(program) stays true"""
    b = [budget]
    # drop functions / globals that can go
    progress = True
    while progress and b[0] > 0:
        progress = False
        for i in range(len(p.fns)):
            q = Prog(p.globals, p.fns[:i] + p.fns[i + 1:], p.dsp)
            b[0] -= 1
            if pred(q):
                p = q
                progress = True
                break
        for i in range(len(p.globals)):
            q = Prog(p.globals[:i] + p.globals[i + 1:], p.fns, p.dsp)
            b[0] -= 1
            if pred(q):
                p = q
                progress = True
                break
    def with_fn(i, body):
        f = p.fns[i]
        nf = f.with_body(body)
        return Prog(p.globals, p.fns[:i] + [nf] + p.fns[i + 1:], p.dsp)
    for i in range(len(p.fns)):
        body = shrink_node(p.fns[i].body, lambda x, i=i: with_fn(i, x), pred, b)
        p = with_fn(i, body)
    def with_dsp(body):
        d = p.dsp
        return Prog(p.globals, p.fns, d.with_body(body))
    p = with_dsp(shrink_node(p.dsp.body, with_dsp, pred, b))
    return p


def user_names(p):
    """all user-chosen identifiers of a program (globals, functions, params, let-bound and lambda-bound names)"""
    names = []

    def walk(n):
        if n.kind == "let":
            names.append(n.a[0])
        elif n.kind == "lett":
            names.extend(n.a[0])
        elif n.kind == "letp":
            names.extend(pat_names(n.a[0]))
        elif n.kind == "letr":
            names.append(n.a[0])
        elif n.kind == "letrp":
            names.extend(v for _, v in n.a[0])
        elif n.kind == "lam":
            names.extend(n.a[0])
        for _, ch in children(n):
            walk(ch)
    for x, e in p.globals:
        names.append(x)
        walk(e)
    for f in p.fns + [p.dsp]:
        if f.name != "dsp":
            names.append(f.name)
        names.extend(f.params)
        walk(f.body)
    seen, out = set(), []
    for x in names:
        if x not in seen:
            seen.add(x)
            out.append(x)
    return out


# ---- near-miss mutants (C03): type-changing mutations of a well-typed program ---------------------------

def all_nodes(n, path=()):
    out = [(path, n)]
    for key, ch in children(n):
        out += all_nodes(ch, path + (key,))
    return out


def replace_at(n, path, new):
    if not path:
        return new
    key = path[0]
    ch = dict((k, c) for k, c in children(n))[key]
    return replace_child(n, key, replace_at(ch, path[1:], new))


def mutate_node(r, n):
    """returns a (probably) ill-typed variant of node n, or None"""
    k = n.kind
    opts = []
    if k == "tup":
        opts += ["tup_drop", "tup_add"]
    if k == "proj":
        opts += ["proj_far", "proj_scalar"]
    if k in ("call", "app"):
        opts += ["arg_drop", "arg_add", "arg_tuple"]
    if k == "var":
        opts += ["unbound", "apply_var"]
    if k == "lit":
        opts += ["lit_tuple", "apply_lit"]
    if k == "if":
        opts += ["arm_tuple"]
    if k == "bin":
        opts += ["operand_tuple", "operand_lambda"]
    if k == "lett":
        opts += ["pat_arity"]
    if k == "mem":
        opts += ["mem_tuple"]
    if k == "delay":
        opts += ["delay_tuple"]
    if not opts:
        return None, None
    m = r.pick(opts)
    one = Node("lit", "1.0")
    tup2 = Node("tup", [Node("lit", "1.0"), Node("lit", "2.0")])
    if m == "tup_drop" and len(n.a[0]) > 1:
        # `(x)` is a parenthesised expression in the surface syntax, not a 1-tuple: a pair loses its tuple-ness
        return m, (Node("tup", list(n.a[0][:-1])) if len(n.a[0]) > 2 else n.a[0][0])
    if m == "tup_add":
        return m, Node("tup", list(n.a[0]) + [one])
    if m == "proj_far":
        return m, Node("proj", n.a[0], n.a[1] + 5)
    if m == "proj_scalar":
        return m, Node("proj", one, 0)
    if m == "arg_drop" and len(n.a[1]) > 0:
        return m, (Node("call", n.a[0], list(n.a[1][:-1]), n.a[2]) if k == "call" else Node("app", n.a[0], list(n.a[1][:-1])))
    if m == "arg_add":
        return m, (Node("call", n.a[0], list(n.a[1]) + [one], n.a[2]) if k == "call" else Node("app", n.a[0], list(n.a[1]) + [one]))
    if m == "arg_tuple" and len(n.a[1]) > 0:
        args = [tup2] + list(n.a[1][1:])
        return m, (Node("call", n.a[0], args, n.a[2]) if k == "call" else Node("app", n.a[0], args))
    if m == "unbound":
        return m, Node("var", "nosuchname")
    if m == "apply_var":
        return m, Node("app", n, [one])
    if m == "lit_tuple":
        return m, tup2
    if m == "apply_lit":
        return m, Node("app", n, [one])
    if m == "arm_tuple":
        return m, Node("if", n.a[0], n.a[1], tup2)
    if m == "operand_tuple":
        return m, Node("bin", n.a[0], tup2, n.a[2])
    if m == "operand_lambda":
        return m, Node("bin", n.a[0], n.a[1], Node("lam", ["q"], Node("var", "q")))
    if m == "pat_arity":
        return m, Node("lett", list(n.a[0]) + ["extra"], n.a[1], n.a[2])
    if m == "mem_tuple":
        return m, Node("mem", tup2, n.a[1])
    if m == "delay_tuple":
        return m, Node("delay", n.a[0], tup2, n.a[2], n.a[3])
    return None, None


def map_nodes(n, f):
    """bottom-up rewrite of an AST"""
    for key, ch in children(n):
        n = replace_child(n, key, map_nodes(ch, f))
    return f(n)


def strip_record_annotations(p):
    """the same program without the `let r: {f: float, …} = …` type annotations (they say `float`; a mutant that puts
    something else there would be rejected for the annotation, which the S-expression of the model does not carry)"""
    def f(n):
        return Node("letr", n.a[0], None, n.a[2], n.a[3]) if n.kind == "letr" and n.a[1] is not None else n
    return Prog([(x, map_nodes(e, f)) for x, e in p.globals], [fn.with_body(map_nodes(fn.body, f)) for fn in p.fns],
                p.dsp.with_body(map_nodes(p.dsp.body, f)))


def has_sole_tuple_argument(p):
    """some call / application has exactly one argument and it is a tuple literal: the surface language reads `f((a, b))`
    as `f(a, b)` (an argument pack), the core model as one tuple-valued argument"""
    def walk(n):
        if n.kind in ("call", "app") and len(n.a[1]) == 1 and n.a[1][0].kind == "tup":
            return True
        return any(walk(ch) for _, ch in children(n))
    return any(walk(f.body) for f in p.fns + [p.dsp])


def mutant(p, r):
    """one near-miss mutant of program p: (mutation name, Prog) or (None, None)"""
    fns = p.fns + [p.dsp]
    for _ in range(8):
        fi = r.below(len(fns))
        f = fns[fi]
        nodes = all_nodes(f.body)
        path, n = nodes[r.below(len(nodes))]
        name, new = mutate_node(r, n)
        if new is None:
            continue
        body = replace_at(f.body, path, new)
        if src(body) == src(f.body):
            continue        # the node stands for an omitted default of a parameter pack: the source text does not contain it
        nf = f.with_body(body)
        if fi == len(p.fns):
            return name, Prog(p.globals, p.fns, nf)
        return name, Prog(p.globals, p.fns[:fi] + [nf] + p.fns[fi + 1:], p.dsp)
    return None, None
# ---- extension hook (C09/C10 staging layer, tools/gen/stagegen.py): node kinds registered in EXT_SRC / EXT_SX are
# rendered by the plug-in; every recursive call inside this module goes through the dispatchers below
_core_src, _core_sx = src, sx
EXT_SRC, EXT_SX = {}, {}


def src(n, kn=DEFAULT, ind=0, prec=0):
    h = EXT_SRC.get(n.kind)
    return h(n, kn, ind, prec) if h else _core_src(n, kn, ind, prec)


def sx(n):
    h = EXT_SX.get(n.kind)
    return h(n) if h else _core_sx(n)


def field_names(p):
    """all record field names of a program"""
    out = set()

    def walk(n):
        if n.kind == "rec":
            out.update(f for f, _ in n.a[0])
        elif n.kind in ("field", "setf", "recupd"):
            out.add(n.a[1])
        elif n.kind == "letrp":
            out.update(f for f, _ in n.a[0])
        for _, ch in children(n):
            walk(ch)
    for _, e in p.globals:
        walk(e)
    for f in p.fns + [p.dsp]:
        walk(f.body)
    return sorted(out)



def shadow_renames(p):
    """capture-free renamings that make a let-bound local SHADOW an outer name: pairs (x, y) where x is a `let` variable
    (unique in the program: the generator's names are fresh) and y is a name visible at that `let` — the enclosing
    function's own name, another function, a global, a parameter — that does not occur in the scope of x.
    Rendering with Knobs(rename={x: y}) turns `let x = e; b` into `let y = e; b[x:=y]`: e still means the outer y."""
    import re
    word = re.compile(r"[A-Za-z_][A-Za-z0-9_]*")
    gl = [g for g, _ in p.globals]
    fnames = [f.name for f in p.fns]
    out = []
    for fi, f in enumerate(list(p.fns) + [p.dsp]):
        visible = gl + fnames[:fi] + ([f.name] if f.name != "dsp" else []) + list(f.params)

        def walk(n):
            if not isinstance(n, Node):
                return
            if n.kind == "let" and isinstance(n.a[0], str) and n.a[1].kind != "lam":
                inside = set(word.findall(src(n.a[2])))
                for y in visible:
                    if y not in inside and y != n.a[0]:
                        out.append((n.a[0], y, f.name))
            for _, ch in children(n):
                walk(ch)
        walk(f.body)
    return out



def same_tuple_fn_called_twice(p):
    """class predicate of the repaired finding G8-WSM (C01): some function body calls ONE tuple-returning function at two
    sites (`(f0(1.0)).1 + (f0(5.0)).1`): on WASM the two results were the same words of a per-function fixed area."""
    tfn = {f.name for f in p.fns if is_tuple(f.ret)}

    def calls(n, acc):
        if isinstance(n, Node):
            if n.kind == "call" and n.a[0] in tfn:
                acc.append(n.a[0])
            for _, ch in children(n):
                calls(ch, acc)
        return acc
    for f in list(p.fns) + [p.dsp]:
        cs = calls(f.body, [])
        if len(cs) != len(set(cs)):
            return True
    return False


def bare_self_in_tuple(p):
    """class predicate of the repaired finding G7 (C01): a bare `self` is a component of a tuple literal.  When nothing else
    constrains the type of `self`, WASM typed the component as an unresolved word (i64) and a projection of it that is
    returned yielded the ADDRESS of the slot (`fn dsp(){ let t = (1.0, self, now)  t.1 }`: VM 0, WASM 0x420)."""
    def walk(n):
        if not isinstance(n, Node):
            return False
        if n.kind == "tup" and any(isinstance(x, Node) and x.kind == "self" for x in n.a[0]):
            return True
        # a record literal is the tuple of its fields: `let r = {x = 1.0, y = self}  r.y` gives 0 on the VM, 0x418 on WASM
        if n.kind == "rec" and any(isinstance(e, Node) and e.kind == "self" for _, e in n.a[0]):
            return True
        return any(walk(ch) for _, ch in children(n))
    return any(walk(f.body) for f in list(p.fns) + [p.dsp])


def nested_assign_risk(p):
    """class predicate of the listed finding G6 (upvalues of upvalues are copies): a variable that is ASSIGNED somewhere in its
    function (by the function itself or inside any closure) is mentioned inside a lambda nested at least TWO lambda levels below
    its binder.  mirgen hands the inner closure a register of the middle function holding a snapshot (reads) and resolves an
    assignment two levels up against the wrong frame (writes)."""
    import re
    ident = re.compile(r"^[a-z]+[0-9]+$")

    def flat(x, out):
        if isinstance(x, str):
            if ident.match(x):
                out.append(x)
        elif isinstance(x, (list, tuple)):
            for y in x:
                flat(y, out)
        return out

    def assigned(n, acc):
        if isinstance(n, Node):
            if n.kind in ("set", "setf", "recupd"):
                acc.add(n.a[0])
            for _, ch in children(n):
                assigned(ch, acc)
        return acc

    def bind(n, d, depthof):
        if not isinstance(n, Node):
            return
        if n.kind in ("let", "lett", "letp", "letr", "letrp"):
            for nm in flat(n.a[0], []):
                depthof[nm] = d
        if n.kind == "lam":
            for nm in n.a[0]:
                depthof[nm] = d + 1
            bind(n.a[1], d + 1, depthof)
            return
        for _, ch in children(n):
            bind(ch, d, depthof)

    def risky(n, d, depthof, asg):
        if not isinstance(n, Node):
            return False
        if n.kind in ("var", "set", "setf", "recupd") and isinstance(n.a[0], str):
            if n.a[0] in asg and d - depthof.get(n.a[0], 0) >= 2:
                return True
        if n.kind == "lam":
            return risky(n.a[1], d + 1, depthof, asg)
        return any(risky(ch, d, depthof, asg) for _, ch in children(n))

    for f in list(p.fns) + [p.dsp]:
        depthof = {a: 0 for a in f.params}
        bind(f.body, 0, depthof)
        if risky(f.body, 0, depthof, assigned(f.body, set())):
            return True
    return False


def stale_capture_risk(p):
    """class predicate of the listed finding G3 (root cause: `close_heap_closure` at the end of an inner block turns the
    cell SHARED by all closures that captured a variable into a snapshot while the variable lives on in its frame; a later
    write by the enclosing function — or through another closure — and a later read then see different storage):
    some function has a lambda that is let-bound inside an `if` arm or a nested block (not on the function's top-level
    statement chain) and mentions a variable that the function assigns somewhere."""
    import re
    word = re.compile(r"[A-Za-z_][A-Za-z0-9_]*")

    def assigned(n, acc):
        if isinstance(n, Node):
            if n.kind in ("set", "setf"):
                acc.add(n.a[0])
            for _, ch in children(n):
                assigned(ch, acc)
        return acc

    def walk(n, top, asg):
        """top: n is on the top-level statement chain of its function (or lambda) body"""
        if not isinstance(n, Node):
            return False
        if n.kind == "lam":
            a2 = assigned(n.a[1], set()) | asg
            return walk(n.a[1], True, a2)
        if n.kind == "let" and isinstance(n.a[1], Node) and n.a[1].kind == "lam" and not top:
            if set(word.findall(src(n.a[1]))) & asg:
                return True
        if n.kind in ("let", "lett", "letp", "letr", "letrp", "set", "setf"):
            *heads, last = [ch for _, ch in children(n)]
            return any(walk(h, False, asg) for h in heads) or walk(last, top, asg)
        return any(walk(ch, False, asg) for _, ch in children(n))
    for f in list(p.fns) + [p.dsp]:
        if walk(f.body, True, assigned(f.body, set())):
            return True
    return False
