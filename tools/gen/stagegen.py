"""Staging layer on top of coregen (C09 / C10).

A staged program = macro-stage function definitions (`#stage(macro)`) + a core program (`#stage(main)`) whose float
expressions are, at random places, wrapped in *staging contexts*:

  ident    m!(`{e})              with  fn m(x){ x }
  qs       $(`{e})
  tmpl     m!(`{a1}, `{a2})      with  fn m(h1,h2){ `{ T[$h1,$h2] } }         T = random core block over the holes
  letcode  m!(`{a})              with  fn m(h){ let c = `{T1[$h]}  `{T2[$c,$h]} }
  hof      m!(k, `{a}) / m!(|c|{`{T[$c]}}, `{a})   with  fn m(f,x){ f(f(x)) }, fn k(c){ `{T[$c]} }
  rec      m!(N, `{a})           with  fn m(n,x){ if (n>0.0){ `{T[$x,$(m(n-1.0,x))]} } else { `{B} } }   (N = 0..3)
  reclift  the same with a lifted macro-stage number  $(lift_f(n*K1+K2))  in the template
  nested   m!(`{a})              with  fn m(h){ `{ T1[ $(`{ T2[$h] }) ] } }
  genlam   m!(N)(a)              with  fn m(n){ `{ |y| { T[y, $(lift_f(n*K))] } } }

One Python AST renders (a) the staged mimium source, (b) the S-expression the Lean model `drv_c09` reads, and
`manual()` computes (c) the hand-written expansion (substitution of the argument code into the templates, macro-stage
arithmetic done here in Python floats) as a plain coregen program (source + S-expression for `drv_prog`).
"""
import coregen
coregen.FRAC_DELAY = False     # the staging checks compare expanded TREES, literals as text: delay maxima stay `N.0`
from coregen import Node, Fn, Prog, Rng, F, T, f64bits, hex16

# ---------------------------------------------------------------------------------------------------------------
# rendering of the staging node kinds


def _src_quote(n, kn, ind, prec):
    return "`" + coregen.braces(n.a[0], kn, ind)


def _src_splice(n, kn, ind, prec):
    m = n.a[0]
    if m.kind == "var":
        return "$" + kn.name(m.a[0])
    return "$(" + coregen.src(m, kn, ind) + ")"


def _src_mcall(n, kn, ind, prec):
    return f"{kn.name(n.a[0])}!({', '.join(coregen.src(x, kn, ind) for x in n.a[1])})"


def _src_lift(n, kn, ind, prec):
    return f"lift_f({coregen.src(n.a[0], kn, ind)})"


coregen.EXT_SRC.update({"quote": _src_quote, "splice": _src_splice, "mcall": _src_mcall, "lift": _src_lift})
coregen.EXT_SX.update({
    "quote": lambda n: f"(quote {coregen.sx(n.a[0])})",
    "splice": lambda n: f"(splice {coregen.sx(n.a[0])})",
    "mcall": lambda n: f"(mcall (var {n.a[0]}) " + " ".join(coregen.sx(x) for x in n.a[1]) + ")",
    "lift": lambda n: f"(lift {coregen.sx(n.a[0])})",
})


class MFn:
    """macro-stage function"""

    def __init__(self, name, params, body):
        self.name, self.params, self.body = name, params, body

    def src(self, kn=coregen.DEFAULT):
        return f"fn {kn.name(self.name)}({', '.join(kn.name(p) for p in self.params)}) {coregen.braces(self.body, kn, 0)}"

    def sx(self):
        return f"(fn {self.name} ({' '.join(self.params)}) - {coregen.sx(self.body)})"


class SProg:
    """items in source order: ("macro", MFn) | ("g", name, expr) | ("fn", Fn); the stage switches where the kind changes.
    Quoted code is type checked where it is written, so a template may mention only main-stage functions defined
    before its macro: every macro sits right before the first definition that uses it."""

    def __init__(self, items):
        self.items = items

    @property
    def macros(self):
        return [it[1] for it in self.items if it[0] == "macro"]

    @property
    def prog(self):
        fns = [it[1] for it in self.items if it[0] == "fn"]
        return Prog([(it[1], it[2]) for it in self.items if it[0] == "g"], [f for f in fns if f.name != "dsp"],
                    [f for f in fns if f.name == "dsp"][0])

    def src(self, kn=coregen.DEFAULT):
        out, stage = [], "main"
        for it in self.items:
            st = "macro" if it[0] == "macro" else "main"
            if it[0] == "raw":
                # module declarations / imports that the staged program never references (C10: names that are merely VISIBLE)
                if stage != "main":
                    out.append("#stage(main)")
                    stage = "main"
                out.append(it[1])
                continue
            if st != stage:
                out.append(f"#stage({st})")
                stage = st
            if it[0] == "g":
                out.append(f"let {kn.name(it[1])} = {coregen.src(it[2], kn)}")
            else:
                out.append(it[1].src(kn))
        return "\n".join(out) + "\n"

    def sx(self):
        parts = []
        for it in self.items:
            if it[0] == "macro":
                parts.append("(m " + it[1].sx() + ")")
            elif it[0] == "g":
                parts.append(f"(g {it[1]} {coregen.sx(it[2])})")
            elif it[0] == "raw":
                continue
            else:
                parts.append(it[1].sx())
        return "(sprog " + " ".join(parts) + ")"


def from_prog(p, macros=()):
    return SProg([("macro", m) for m in macros] + [("g", x, e) for x, e in p.globals] + [("fn", f) for f in p.fns] + [("fn", p.dsp)])


def plain_sx(p):
    """a plain core program in the `sprog` format (no macro stage)"""
    return from_prog(p).sx()


# ---------------------------------------------------------------------------------------------------------------
# manual expansion: substitution, computed here

class Stuck(Exception):
    pass


def lit_text(x):
    """decimal text of a non-negative finite double that mimium's lexer reads back to the same value"""
    s = repr(float(x))
    if ("e" in s or "E" in s) and float(x) == int(float(x)) and abs(float(x)) < 1e300:
        s = "%d.0" % int(float(x))       # a large whole number: all its decimal digits
    if "e" in s or "E" in s or "n" in s:
        raise Stuck("literal needs an exponent: " + s)
    return s


def num_node(x):
    if x == 0 and str(x).startswith("-"):
        # negative zero has no literal (`-0.0` is `0.0 - 0.0` = +0.0): written as a product
        return Node("bin", "mul", Node("lit", "0.0"), Node("un", "neg", Node("lit", "1.0")))
    if x < 0:
        return Node("un", "neg", Node("lit", lit_text(-x)))
    return Node("lit", lit_text(x))


def _map_children(n, f):
    a = []
    for x in n.a:
        if isinstance(x, Node):
            a.append(f(x))
        elif isinstance(x, list) and x and isinstance(x[0], Node):
            a.append([f(y) for y in x])
        else:
            a.append(x)
    return Node(n.kind, *a)


def _arith(op, x, y):
    import math
    if op == "add": return x + y
    if op == "sub": return x - y
    if op == "mul": return x * y
    if op == "div":
        if y == 0: raise Stuck("macro-stage division by zero")
        return x / y
    b = {"lt": x < y, "le": x <= y, "gt": x > y, "ge": x >= y, "eq": x == y, "ne": x != y,
         "and": x > 0 and y > 0, "or": x > 0 or y > 0}[op]
    return 1.0 if b else 0.0


class Expander:
    """macro-stage evaluator over the Python AST: values are ('num', float) | ('code', Node) | ('clo', ps, body, env) | ('mfn', MFn)"""

    def __init__(self, macros, fuel=20000):
        self.macros = {m.name: m for m in macros}
        self.fuel = fuel

    def fill(self, n, env):
        """stage-1 code with splices -> plain code"""
        if n.kind == "splice":
            v = self.evalm(n.a[0], env)
            if v[0] != "code":
                raise Stuck("splice of a non-code value")
            return v[1]
        if n.kind == "mcall":
            v = self.apply(self.lookup(n.a[0], env), [self.evalm(x, env) for x in n.a[1]])
            if v[0] != "code":
                raise Stuck("macro call result is not code")
            return v[1]
        if n.kind in ("quote", "lift"):
            raise Stuck("quote inside stage-1 code")
        return _map_children(n, lambda c: self.fill(c, env))

    def lookup(self, x, env):
        for k, v in env:
            if k == x:
                return v
        if x in self.macros:
            return ("mfn", self.macros[x])
        raise Stuck("unbound macro-stage name " + x)

    def apply(self, f, args):
        self.fuel -= 1
        if self.fuel <= 0:
            raise Stuck("fuel")
        if f[0] == "mfn":
            m = f[1]
            if len(m.params) != len(args):
                raise Stuck("arity")
            return self.evalm(m.body, list(zip(m.params, args))[::-1])
        if f[0] == "clo":
            _, ps, body, env = f
            return self.evalm(body, list(zip(ps, args))[::-1] + env)
        raise Stuck("application of a non-function")

    def evalm(self, n, env):
        k, a = n.kind, n.a
        if k == "lit":
            return ("num", float(a[0]))
        if k == "var":
            return self.lookup(a[0], env)
        if k == "bin":
            x, y = self.evalm(a[1], env), self.evalm(a[2], env)
            if x[0] != "num" or y[0] != "num":
                raise Stuck("arithmetic on non-numbers")
            return ("num", _arith(a[0], x[1], y[1]))
        if k == "un" and a[0] == "neg":
            x = self.evalm(a[1], env)
            return ("num", 0.0 - x[1])
        if k == "if":
            c = self.evalm(a[0], env)
            return self.evalm(a[1] if c[1] > 0 else a[2], env)
        if k == "let":
            return self.evalm(a[2], [(a[0], self.evalm(a[1], env))] + env)
        if k == "app":
            return self.apply(self.evalm(a[0], env), [self.evalm(x, env) for x in a[1]])
        if k == "lam":
            return ("clo", a[0], a[1], env)
        if k == "quote":
            return ("code", self.fill(a[0], env))
        if k == "lift":
            x = self.evalm(a[0], env)
            if x[0] != "num":
                raise Stuck("lift of a non-number")
            return ("code", num_node(x[1]))
        raise Stuck("macro-stage form " + k)


def rename_name(n, old, new):
    """every occurrence of the identifier `old` in a tree (binders, uses, assignment targets) becomes `new`"""
    if isinstance(n, Node):
        return Node(n.kind, *[rename_name(x, old, new) for x in n.a])
    if isinstance(n, list):
        return [rename_name(x, old, new) for x in n]
    if isinstance(n, tuple):
        return tuple(rename_name(x, old, new) for x in n)
    return new if (isinstance(n, str) and n == old) else n


def binders(n, acc):
    """let-bound names of a tree (with multiplicity), lambdas included"""
    if n.kind == "let":
        acc.append(n.a[0])
    elif n.kind == "lett":
        acc.extend(n.a[0])
    for _, c in coregen.children(n):
        binders(c, acc)
    return acc


def dup_binders(p):
    """known finding S1 (a `let` inside `{}` is not scoped to the block): a function whose expansion binds one name twice
    may observe the leak; the reference semantics scopes blocks, so such programs are compared implementation against
    implementation only"""
    g = [x for x, _ in p.globals]
    for f in p.fns + [p.dsp]:
        b = binders(f.body, list(f.params) + g)
        if len(b) != len(set(b)):
            return True
    for _, e in p.globals:
        binders(e, g)
    return len(g) != len(set(g))


def resite(n, counter):
    """fresh textual sites for every stateful construct (expansion duplicates code; every copy is its own site)"""
    if n.kind == "call":
        args = [resite(x, counter) for x in n.a[1]]
        counter[0] += 1
        return Node("call", n.a[0], args, counter[0])
    if n.kind == "mem":
        e = resite(n.a[0], counter)
        counter[0] += 1
        return Node("mem", e, counter[0])
    if n.kind == "delay":
        e, t = resite(n.a[1], counter), resite(n.a[2], counter)
        counter[0] += 1
        return Node("delay", n.a[0], e, t, counter[0])
    return _map_children(n, lambda c: resite(c, counter))


def manual(sp):
    """the hand-written expansion of a staged program: a plain coregen.Prog"""
    ex = Expander(sp.macros)
    cnt = [0]

    def body(b):
        return resite(ex.fill(b, []), cnt)
    p = sp.prog
    gl = [(x, body(e)) for x, e in p.globals]
    fns = [Fn(f.name, f.params, f.ptypes, f.ret, body(f.body), f.uses_self, f.stateful) for f in p.fns]
    d = p.dsp
    return Prog(gl, fns, Fn(d.name, d.params, d.ptypes, d.ret, body(d.body), d.uses_self, d.stateful))


# ---------------------------------------------------------------------------------------------------------------
# generator

KINDS = [("ident", 3), ("qs", 3), ("tmpl", 8), ("letcode", 4), ("hof", 4), ("rec", 4), ("reclift", 3), ("liftdiv", 3), ("liftif", 3), ("nested", 3),
         ("genlam", 2)]


def holes_to_splices(n, holes):
    if n.kind == "var" and n.a[0] in holes:
        return Node("splice", n)
    return _map_children(n, lambda c: holes_to_splices(c, holes))


class SGen(coregen.Gen):
    def __init__(self, rng, profile):
        super().__init__(rng, profile)
        self.macros = []
        self.budget = profile.get("stage_sites", 3)
        self.kinds = [k for k in KINDS if k[0] in profile.get("kinds", [x[0] for x in KINDS])]
        self.in_macro = 0

    def mname(self):
        return self.fresh("m")

    def simple(self, d, ctx):
        if (d > 0 and self.budget > 0 and not ctx.get("no_stage") and self.in_macro < 2
                and self.r.chance(self.p.get("stage_pct", 30), 100)):
            self.budget -= 1
            return self.staged(d, ctx)
        return super().simple(d, ctx)

    def simple_t(self, t, d, ctx):
        return super().simple_t(t, d, dict(ctx, in_tuple=True))

    def ifexpr(self, t, d, ctx):
        """finding F3 (stateful constructs in the arms of an `if`) is repaired: holes (possibly stateful argument code) are
        used in `if` arms like anywhere else; the knob `avoid_f3` (default off) keeps them to the conditions"""
        if ctx.get("holes") and self.p.get("avoid_f3", False):
            actx = dict(ctx, allow_state=False, in_arm=True, vars=[v for v in ctx["vars"] if v[0] not in ctx["holes"]], holes=None)
            then, els = self.block(t, d, actx), self.block(t, d, actx)
            if self.p.get("avoid_f20", False) and t == F:
                then = self.no_bare_proj_tail(then)
            return Node("if", self.cond(max(d, 1), ctx), then, els)
        return super().ifexpr(t, d, ctx)

    # -- pieces ------------------------------------------------------------------------------
    def template(self, holes, d, ctx, stmts=None, flat=False):
        """random core block over the hole variables; returns the quote node. `flat`: no binder inside (for templates
        that are instantiated several times inside one function, see dup_binders)"""
        if flat:
            stmts, ctx = 0, dict(ctx, in_tuple=True)
        self.in_macro += 1
        # `self` would be converted against the macro function (convert_self precedes staging): templates do not use it
        # (a lambda bound inside a block in operand position next to `self` trips the type checker: templates bind none)
        tctx = dict(ctx, vars=[(h, F, False) for h in holes], self_type=None, used_self=[False], in_lambda=True, holes=set(holes))
        n = self.r.below(3) if stmts is None else stmts
        # (finding F17 — an `if` inside a tuple component or in operand position crashed mirgen / the bytecode generator —
        # is repaired in /repo 4905863: templates may be `if`s anywhere)
        body = self.block(F, max(1, d), tctx, nstmts=n)
        self.in_macro -= 1
        # every hole is used at least once
        for h in holes:
            if not _mentions(body, h):
                body = _append_tail(body, lambda t, h=h: Node("bin", self.r.pick(["add", "mul", "sub"]), t, Node("var", h)), self.fresh)
        return Node("quote", holes_to_splices(body, set(holes)))

    def arg(self, d, ctx):
        return Node("quote", self.simple(d - 1, ctx))

    def mnum(self, nvar):
        """macro-stage arithmetic on the counter: positive, finite, exactly computed by both sides"""
        k1, k2 = self.r.pick(["0.5", "0.25", "1.5", "0.1", "3.0", "0.3"]), self.r.pick(["1.0", "0.125", "2.0", "0.7"])
        if self.p.get("extreme_lift", True) and self.r.chance(1, 4):
            # values whose decimal text is delicate: whole numbers beyond the i64 range, negative zero, large + fraction
            k = self.r.below(4)
            if k == 0:
                return Node("bin", "mul", Node("bin", "add", Node("var", nvar), Node("lit", "1.0")), Node("lit", "1180591620717411303424.0"))   # (n+1)·2^70
            if k == 1:
                return Node("bin", "mul", Node("bin", "mul", Node("var", nvar), Node("lit", "0.0")), Node("un", "neg", Node("lit", "1.0")))     # -0.0
            if k == 2:
                return Node("bin", "mul", Node("bin", "add", Node("var", nvar), Node("lit", "1.0")), Node("lit", "9223372036854775808.0"))     # (n+1)·2^63
            return Node("bin", "add", Node("bin", "mul", Node("var", nvar), Node("lit", "4503599627370496.0")), Node("lit", "0.5"))            # n·2^52 + 0.5
        return Node("bin", "add", Node("bin", "mul", Node("var", nvar), Node("lit", k1)), Node("lit", k2))

    def staged(self, d, ctx):
        r = self.r
        kind = r.weighted(self.kinds)
        self.bump("stage_" + kind)
        if kind == "qs":
            return Node("splice", Node("quote", self.simple(d - 1, ctx)))
        if kind == "ident":
            m = self.mname()
            self.macros.append(MFn(m, ["x"], Node("var", "x")))
            return Node("mcall", m, [self.arg(d, ctx)])
        if kind == "tmpl":
            m = self.mname()
            holes = [self.fresh("h") for _ in range(1 + r.below(2))]
            tmpl = self.template(holes, d - 1, ctx)
            args = [self.arg(d, ctx) for _ in holes]
            if self.p.get("reuse_names", True) and r.chance(1, 3):
                # a binder of the quoted block takes the name of a variable of the USE site (one that the spliced argument
                # code does not mention: that would be the listed capture F6): the block's scope must end with the block,
                # the use-site variable must mean the same after the expansion as before
                import re
                bound = sorted(set(binders(tmpl, [])))
                mentioned = set(re.findall(r"[A-Za-z_][A-Za-z0-9_]*", " ".join(coregen.src(a) for a in args)))
                outer = [v[0] for v in ctx["vars"] if v[1] == F and v[0] not in mentioned and v[0] not in holes and v[0] not in bound]
                if bound and outer:
                    tmpl = rename_name(tmpl, r.pick(bound), r.pick(outer))
                    self.bump("template_binder_reuses_use_site_name")
            self.macros.append(MFn(m, holes, tmpl))
            return Node("mcall", m, args)
        if kind == "letcode":
            m, h, c = self.mname(), self.fresh("h"), self.fresh("c")
            t1 = self.template([h], d - 1, ctx, flat=True)
            t2 = self.template([c, h], d - 1, ctx)
            self.macros.append(MFn(m, [h], Node("let", c, t1, t2)))
            return Node("mcall", m, [self.arg(d, ctx)])
        if kind == "hof":
            m, c = self.mname(), self.fresh("c")
            t = self.template([c], d - 1, ctx, flat=True)
            if r.chance(1, 2):
                k = self.mname()
                self.macros.append(MFn(k, [c], t))
                fn = Node("var", k)
            else:
                fn = Node("lam", [c], t)
            self.macros.append(MFn(m, ["f", "x"], Node("app", Node("var", "f"), [Node("app", Node("var", "f"), [Node("var", "x")])])))
            return Node("mcall", m, [fn, self.arg(d, ctx)])
        if kind in ("rec", "reclift"):
            m, x, rr = self.mname(), self.fresh("h"), self.fresh("h")
            holes = [x, rr]
            if kind == "reclift":
                l = self.fresh("h")
                holes.append(l)
            t = self.template(holes, d - 1, ctx, flat=r.chance(3, 4))
            rec = Node("app", Node("var", m), [Node("bin", "sub", Node("var", "n"), Node("lit", "1.0")), Node("var", x)])
            t = _replace_splice(t, rr, Node("splice", rec))
            if kind == "reclift":
                t = _replace_splice(t, holes[2], Node("splice", Node("lift", self.mnum("n"))))
            base = self.template([x], 0, dict(ctx, allow_state=False), stmts=0) if r.chance(1, 2) else Node("quote", self.lit())
            body = Node("if", Node("bin", "gt", Node("var", "n"), Node("lit", "0.0")), t, base)
            self.macros.append(MFn(m, ["n", x], body))
            return Node("mcall", m, [Node("lit", "%d.0" % r.below(4)), self.arg(d, ctx)])
        if kind == "liftdiv":
            # K / $(lift_f(E(n))): the sign of a zero and the magnitude of a huge value are both visible in the quotient
            m = self.mname()
            self.macros.append(MFn(m, ["n"], Node("quote", Node("bin", "div", self.lit(), Node("splice", Node("lift", self.mnum("n")))))))
            return Node("mcall", m, [Node("lit", "%d.0" % r.below(4))])
        if kind == "liftif":
            # if ($(lift_f(E(n)))) A else B: a number computed at the macro stage as a CONDITION — negative, zero or positive
            # (the truth test of the language is `> 0`; seeded C09d folded a literal condition with `!= 0`)
            m = self.mname()
            e = Node("bin", "sub", Node("bin", "mul", Node("var", "n"), Node("lit", r.pick(["1.0", "0.5", "2.0"]))),
                     Node("lit", r.pick(["0.5", "1.0", "1.5", "2.0", "3.0"])))
            a, b = r.pick([("3.0", "7.0"), ("0.25", "100.0"), ("1.5", "2.5")])
            body = Node("if", Node("splice", Node("lift", e)), Node("lit", a), Node("lit", b))
            self.macros.append(MFn(m, ["n"], Node("quote", body)))
            return Node("mcall", m, [Node("lit", "%d.0" % r.below(4))])
        if kind == "nested":
            m, h, g = self.mname(), self.fresh("h"), self.fresh("h")
            inner = self.template([h], d - 1, ctx, flat=True)
            outer = self.template([g], d - 1, ctx)
            outer = _replace_splice(outer, g, Node("splice", inner))
            self.macros.append(MFn(m, [h], outer))
            return Node("mcall", m, [self.arg(d, ctx)])
        if kind == "genlam":
            m, y, l = self.mname(), self.fresh("p"), self.fresh("h")
            # lambdas of the fragment are stateless
            lctx = dict(ctx, allow_state=False, in_lambda=True)
            t = self.template([y, l], d - 1, lctx)
            body = _replace_splice(t.a[0], y, Node("var", y))
            body = _replace_splice(body, l, Node("splice", Node("lift", self.mnum("n"))))
            self.macros.append(MFn(m, ["n"], Node("quote", Node("lam", [y], body))))
            return Node("app", Node("mcall", m, [Node("lit", "%d.0" % (1 + r.below(3)))]), [self.simple(d - 1, ctx)])
        raise ValueError(kind)


def _sgen_prog(self):
    """coregen.Gen.gen_prog with the macros created while a definition was generated placed right before it"""
    r = self.r
    items, genv = [], []

    def flush():
        for m in self.macros[self._flushed:]:
            items.append(("macro", m))
        self._flushed = len(self.macros)
    self._flushed = 0
    for i in range(r.below(3) if self.p.get("globals", True) else 0):
        x = f"g{i}"
        ctx = dict(vars=list(genv), allow_state=False, self_type=None, delays=set(), used_self=[False], no_time=True)
        e = self.simple(1 + r.below(2), ctx)
        flush()
        items.append(("g", x, e))
        genv.append((x, F, False))
    for i in range(r.below(self.p.get("max_fns", 4) + 1)):
        ret = F if (r.chance(4, 5) or not self.p.get("tuples", True)) else T(F, F)
        stateful = r.chance(self.p.get("stateful_pct", 60), 100)
        f = self.gen_fn(f"f{i}", r.below(3), ret, 1 + r.below(self.p.get("depth", 3)), stateful, genv)
        self.fns.append(f)
        flush()
        items.append(("fn", f))
    nin = r.weighted([(0, 5), (1, 4)]) if self.p.get("inputs", True) else 0
    ret = F if (r.chance(3, 4) or not self.p.get("tuples", True)) else T(F, F)
    dsp = self.gen_fn("dsp", nin, ret, 1 + r.below(self.p.get("depth", 3)), True, genv)
    flush()
    items.append(("fn", dsp))
    return SProg(items)


SGen.gen_sprog = _sgen_prog


def _mentions(n, x):
    if n.kind == "var" and n.a[0] == x:
        return True
    return any(_mentions(c, x) for _, c in coregen.children(n))


def _append_tail(n, f, fresh):
    if n.kind in ("let", "lett", "set"):
        return Node(n.kind, *(list(n.a[:-1]) + [_append_tail(n.a[-1], f, fresh)]))
    return f(n)


def _replace_splice(n, hole, new):
    """replace `$hole` by another node"""
    if n.kind == "splice" and n.a[0].kind == "var" and n.a[0].a[0] == hole:
        return new
    return _map_children(n, lambda c: _replace_splice(c, hole, new))


PROFILES = {
    # core fragment (tuples, lambdas) — VM only
    # records are kept out of staged programs: the staging model (Model/Stage.lean) has no record forms
    "core": dict(coregen.PROFILES["core"], stage_sites=3, stage_pct=30, records=False, rounding=False),
    "deep": dict(coregen.PROFILES["deep"], stage_sites=5, stage_pct=30, records=False, rounding=False),
    # scalar programs with state: also compared on WASM
    "scalar": dict(coregen.PROFILES["scalar"], rounding=False, stage_sites=3, stage_pct=35, kinds=[k for k, _ in KINDS if k != "genlam"]),
}


def make_case(seed, idx, profile="core", times=12):
    # (former finding G3 — a closure bound in an inner block snapshots a variable its function still assigns — is repaired
    # (UPV-2): members of its class `coregen.stale_capture_risk` are no longer rejected)
    r = Rng((seed << 20) ^ idx ^ (coregen.hash_name("stage:" + profile) << 40))
    g = SGen(r, dict(PROFILES[profile], call_styles=False, defaults=False))
    sp = g.gen_sprog()
    nin = len(sp.prog.dsp.params)
    inputs = [[r.pick([0.0, 1.0, -1.0, 0.5, 2.0, 3.25, -0.75, 100.0]) + (t if r.chance(1, 2) else 0) for _ in range(nin)]
              for t in range(times)]
    return sp, inputs, g.stats


if __name__ == "__main__":
    import sys
    seed = int(sys.argv[1]) if len(sys.argv) > 1 else 1
    prof = sys.argv[3] if len(sys.argv) > 3 else "core"
    for i in range(int(sys.argv[2]) if len(sys.argv) > 2 else 3):
        sp, inputs, st = make_case(seed, i, prof)
        print(sp.src())
        print("---- manual")
        try:
            print(manual(sp).src())
        except Stuck as e:
            print("STUCK", e)
        print(sp.sx())
        print()


# ---------------------------------------------------------------------------------------------------------------
# C10: hygiene. Macro bodies that bind a local around / next to a splice x argument code x use sites, all names drawn
# from one small pool so that coincidences are frequent; every case comes as (original, binder-renamed) pair.

POOL = ["y", "z", "w"]
FRESH = "q9"


def _v(x):
    return Node("var", x)


def _l(s):
    return Node("lit", s)


def _b(op, a, c):
    return Node("bin", op, a, c)


def _sp(x):
    return Node("splice", _v(x))


# template shapes: B = the binder under test, x = the hole. (name, builder(B), names the template itself uses besides B)
C10_TEMPLATES = [
    ("let-around", lambda B: Node("let", B, _l("10.0"), _b("add", _sp("x"), _v(B)))),
    ("let-from-splice", lambda B: Node("let", B, _b("mul", _sp("x"), _l("2.0")), _b("add", _v(B), _sp("x")))),
    ("let-then-let", lambda B: Node("let", B, _l("10.0"), Node("let", "t", _b("add", _v(B), _l("1.0")), _b("mul", _sp("x"), _v("t"))))),
    ("tuple-pattern", lambda B: Node("lett", [B, "u"], Node("tup", [_sp("x"), _l("3.0")]), _b("add", _b("add", _v(B), _v("u")), _sp("x")))),
    ("lambda-param", lambda B: Node("let", "f", Node("lam", [B], _b("add", _v(B), _sp("x"))), Node("app", _v("f"), [_l("5.0")]))),
    ("let-mem", lambda B: Node("let", B, Node("mem", _sp("x"), 1), _b("add", _v(B), _sp("x")))),
    # the binder names a let-bound FUNCTION whose body holds the splice: the binder is not in scope in its own value
    # (seeded C10d rebuilt `let g = |n| …` as a letrec, so a spliced `g` became a recursive call)
    ("let-lambda", lambda B: Node("let", B, Node("lam", ["n"], _b("add", _sp("x"), _v("n"))), Node("app", _v(B), [_l("5.0")]))),
    ("splice-next-to", lambda B: Node("let", "s", _sp("x"), Node("let", B, _l("10.0"), _b("add", _v("s"), _v(B))))),
    ("assign", lambda B: Node("let", B, _l("10.0"), Node("set", B, _b("add", _v(B), _sp("x")), _v(B)))),
    ("if-arm", lambda B: Node("let", "c", Node("if", _b("ge", _sp("x"), _l("0.0")), Node("let", B, _l("10.0"), _b("add", _v(B), _sp("x"))), _sp("x")), _v("c"))),
    ("inner-block", lambda B: Node("let", "s", Node("let", B, _sp("x"), _b("mul", _v(B), _l("2.0"))), _b("add", _v("s"), _sp("x")))),
    ("rebind", lambda B: Node("let", B, _l("10.0"), Node("let", B, _b("add", _v(B), _sp("x")), _v(B)))),
]

# templates that hand a quotation mentioning the binder to the helper macro `hh` from inside an escape:
#   `{ let B = 10.0; $(hh(`{B})) + $x }      the inner quotation is lexically inside the outer one, B is bound there
def _hh(e):
    return Node("splice", Node("app", _v("hh"), [Node("quote", e)]))


C10_HELPER = ("hh", ["c"], lambda: Node("quote", _b("add", _sp("c"), _sp("c"))))
C10_TEMPLATES_NESTED = [
    ("nested-quote-let", lambda B: Node("let", B, _l("10.0"), _b("add", _hh(_v(B)), _sp("x")))),
    ("nested-quote-lam", lambda B: Node("let", "f", Node("lam", [B], _b("add", _hh(_v(B)), _sp("x"))), Node("app", _v("f"), [_l("5.0")]))),
    ("nested-quote-tuple", lambda B: Node("lett", [B, "u"], Node("tup", [_sp("x"), _l("3.0")]), _b("add", _hh(_b("add", _v(B), _v("u"))), _sp("x")))),
]
# names that are merely VISIBLE where the macro is defined and used: members of a module imported by wildcard / by an
# explicit `use` (functions; nothing in the program refers to them)
C10_VISIBLE = {
    "wild": "mod fx {\n  pub fn q7(){\n    100.0\n  }\n  pub fn other(){\n    7.0\n  }\n}\nuse fx::*",
    "alias": "mod fx {\n  pub fn q7(){\n    100.0\n  }\n}\nuse fx::q7",
}
VISIBLE_NAME = "q7"

# argument code (only pool names and time)
C10_ARGS = [
    ("y", lambda: _v("y")), ("z", lambda: _v("z")), ("w", lambda: _v("w")), ("now", lambda: Node("now")),
    ("y+z", lambda: _b("add", _v("y"), _v("z"))), ("w*now", lambda: _b("mul", _v("w"), Node("now"))), ("1.5", lambda: _l("1.5")),
]

# code after the macro call at the use site (r = result of the call)
C10_AFTER = [
    ("r", lambda: _v("r")), ("r+y", lambda: _b("add", _v("r"), _v("y"))), ("r*z", lambda: _b("mul", _v("r"), _v("z"))),
    ("r+w", lambda: _b("add", _v("r"), _v("w"))),
]

POOL_VALUE = {"y": "1.0", "z": "2.0", "w": "4.0"}


def free_names(n, bound=frozenset()):
    """free variable names of a (plain or staged) tree"""
    k = n.kind
    if k == "var":
        return set() if n.a[0] in bound else {n.a[0]}
    if k == "let":
        return free_names(n.a[1], bound) | free_names(n.a[2], bound | {n.a[0]})
    if k == "lett":
        return free_names(n.a[1], bound) | free_names(n.a[2], bound | set(n.a[0]))
    if k == "lam":
        return free_names(n.a[1], bound | set(n.a[0]))
    if k == "set":
        return ({n.a[0]} - bound) | free_names(n.a[1], bound) | free_names(n.a[2], bound)
    out = set()
    for _, c in coregen.children(n):
        out |= free_names(c, bound)
    return out


def all_names(n):
    out = set()
    if n.kind == "var":
        out.add(n.a[0])
    elif n.kind in ("let", "set"):
        out.add(n.a[0])
    elif n.kind in ("lett", "lam"):
        out |= set(n.a[0])
    for _, c in coregen.children(n):
        out |= all_names(c)
    return out


def c10_case(ti, ai, bound, globals_, fi, B, B2, visible=None):
    """one (original, renamed) pair. bound = pool names bound as locals at the use site before the call,
    globals_ = pool names bound as globals. Returns None when the use site would mention an unbound name.
    visible = None | "wild" | "alias": a module member named VISIBLE_NAME is importable where the macro stands."""
    tname, tb = (C10_TEMPLATES + C10_TEMPLATES_NESTED)[ti]
    aname, ab = C10_ARGS[ai]
    fname, fb = C10_AFTER[fi]
    arg, after = ab(), fb()
    need = (free_names(arg) | free_names(after)) - {"r"}
    if not need <= set(bound) | set(globals_):
        return None

    def build(binder):
        m = MFn("m", ["x"], Node("quote", tb(binder)))
        body = Node("let", "r", Node("mcall", "m", [Node("quote", arg)]), after)
        for x in reversed(bound):
            body = Node("let", x, _l(POOL_VALUE[x]), body)
        dsp = Fn("dsp", [], [], F, body, False, True)
        pre = [("raw", C10_VISIBLE[visible])] if visible else []
        helper = [("macro", MFn(C10_HELPER[0], C10_HELPER[1], C10_HELPER[2]()))] if tname.startswith("nested-") else []
        return SProg(pre + helper + [("macro", m)] + [("g", x, _l(POOL_VALUE[x] + "1")) for x in globals_] + [("fn", dsp)])
    tmpl_names = all_names(tb(B)) - {B}
    noclash = (B not in free_names(arg) and B2 not in free_names(arg) and B2 not in tmpl_names
               and B not in bound and B2 not in bound and B not in globals_ and B2 not in globals_)
    return dict(orig=build(B), ren=build(B2), noclash=noclash, template=tname + (("@" + visible) if visible else ""), arg=aname, after=fname, bound=list(bound),
                globals=list(globals_), binder=B, new=B2,
                why=[w for w, c in (("arg mentions binder", B in free_names(arg)), ("arg mentions new name", B2 in free_names(arg)),
                                    ("template uses new name", B2 in tmpl_names), ("use site binds binder", B in bound or B in globals_),
                                    ("use site binds new name", B2 in bound or B2 in globals_)) if c])


def c10_all():
    """the whole small scope, in a fixed order"""
    import itertools
    subsets = [s for k in range(4) for s in itertools.combinations(POOL, k)]
    for ti in range(len(C10_TEMPLATES)):
        for ai in range(len(C10_ARGS)):
            for bound in subsets:
                for gl in [(), ("w",), ("y",)]:
                    if set(gl) & set(bound):
                        continue
                    for fi in range(len(C10_AFTER)):
                        for B in POOL:
                            for B2 in POOL + [FRESH]:
                                if B2 == B:
                                    continue
                                c = c10_case(ti, ai, bound, gl, fi, B, B2)
                                if c is not None:
                                    yield c
    # (a) the templates with a quotation nested in an escape, plain context; (b) every template where the NEW binder name is
    # the name of a module member visible through `use fx::*` / `use fx::q7` (nothing refers to that member: the renamed binder
    # must keep meaning itself in the quotation and in every quotation nested in it)
    nT = len(C10_TEMPLATES)
    for ti in range(nT + len(C10_TEMPLATES_NESTED)):
        for ai in range(len(C10_ARGS)):
            for bound in [(), ("y", "z"), ("y", "z", "w")]:
                for fi in (0, 1):
                    for B in POOL:
                        if ti >= nT:
                            for B2 in POOL + [FRESH]:
                                if B2 != B:
                                    c = c10_case(ti, ai, bound, (), fi, B, B2)
                                    if c is not None:
                                        yield c
                        for vis in ("wild", "alias"):
                            c = c10_case(ti, ai, bound, (), fi, B, VISIBLE_NAME, visible=vis)
                            if c is not None:
                                yield c


# ---------------------------------------------------------------------------------------------------------------
# C10 / C09: the macro pipe `x ||> f` (compile-time expansion in convert_pronoun.rs: convert_placeholder,
# convert_macro_pipe, substitute_macro_arg). Programs are rendered from NAMELESS skeletons, so every rendering of one
# skeleton (any binder names that resolve lexically to the same binders, explicit macro lambdas or the `_` sugar) is the
# same program up to renaming and must behave like the skeleton's manual expansion.
#
#   Node("hole", k)               the splice `$<binder k>`
#   Node("spipe", k, arg, body)   arg ||> (|<k>| `{ body })            or, as sugar,  arg ||> f(.., _, ..)
#   Node("smapp", k, arg, body)   $((|<k>| `{ body })(`{ arg }))       a macro lambda that is NOT piped

def _src_pipem(n, kn, ind, prec):
    arg, fun = n.a[0], n.a[1]
    chain = len(n.a) > 2 and n.a[2] == "chain"
    s = coregen.src(arg, kn, ind)
    if arg.kind == "pipem" and chain:
        s = s[1:-1]                  # a ||> f ||> g   (left associative)
    elif arg.kind not in ("lit", "var", "now", "call", "mem", "pipem", "splice"):
        s = "(" + s + ")"
    return f"({s} ||> {coregen.src(fun, kn, ind)})"


def _src_mlam(n, kn, ind, prec):
    return f"(|{', '.join(kn.name(p) for p in n.a[0])}| {coregen.src(n.a[1], kn, ind)})"


coregen.EXT_SRC.update({"pipem": _src_pipem, "mlam": _src_mlam, "ph": lambda n, kn, ind, prec: "_"})
coregen.EXT_SX.update({
    "pipem": lambda n: f"(pipem {coregen.sx(n.a[0])} {coregen.sx(n.a[1])})",
    "mlam": lambda n: f"(mlam ({' '.join(n.a[0])}) {coregen.sx(n.a[1])})",
    "ph": lambda n: "(ph)",
})

LAMBDA_ARG = "__lambda_arg_%d"


def _call(f, *args):
    return Node("call", f, list(args), 0)


def _h(k):
    return Node("hole", k)


def _P(k, arg, body):
    return Node("spipe", k, arg, body)


def _M(k, arg, body):
    return Node("smapp", k, arg, body)


def pipe_skeletons():
    L, now = _l, Node("now")
    memnow = Node("mem", Node("now"), 0)
    return [
        ("single", _P(0, L("3.0"), _call("subf", _h(0), L("2.0")))),
        ("single-2nd", _P(0, now, _call("subf", L("2.0"), _h(0)))),
        ("single-twice", _P(0, _b("add", now, L("1.0")), _b("sub", _b("mul", _h(0), _h(0)), L("1.0")))),
        ("body-same-pos", _P(0, L("3.0"), _call("subf", _h(0), _P(1, L("10.0"), _call("mulf", _h(1), L("2.0")))))),
        ("body-diff-pos", _P(0, L("3.0"), _call("subf", _h(0), _P(1, L("10.0"), _call("subf", L("2.0"), _h(1)))))),
        ("body-in-1st-arg", _P(0, now, _call("subf", _P(1, L("10.0"), _call("subf", L("2.0"), _h(1))), _h(0)))),
        ("body-inner-uses-outer", _P(0, L("3.0"), _call("subf", _h(0), _P(1, L("10.0"), _call("subf", _h(1), _h(0)))))),
        ("arg-side", _P(0, _P(1, L("10.0"), _call("subf", _h(1), L("1.0"))), _call("mulf", _h(0), L("2.0")))),
        ("arg-side-2nd", _P(0, _P(1, now, _call("subf", L("1.0"), _h(1))), _call("subf", L("2.0"), _h(0)))),
        ("chain", Node("spipe", 0, _P(1, L("10.0"), _call("subf", _h(1), L("1.0"))), _call("mulf", _h(0), L("2.0")), "chain")),
        ("chain3", Node("spipe", 0, Node("spipe", 1, _P(2, now, _call("addf", _h(2), L("1.0"))), _call("subf", L("7.0"), _h(1)), "chain"),
                        _call("mulf", _h(0), L("2.0")), "chain")),
        ("triple", _P(0, L("3.0"), _call("addf", _h(0), _P(1, L("10.0"), _call("mulf", _h(1), _P(2, now, _call("subf", _h(2), L("0.5")))))))),
        ("triple-uses", _P(0, L("3.0"), _call("addf", _h(0), _P(1, L("10.0"), _call("mulf", _h(1), _P(2, now, _call("subf", _h(2), _h(0)))))))),
        ("siblings", _P(0, now, _call("subf", _P(1, L("10.0"), _call("mulf", _h(1), L("2.0"))), _P(2, L("5.0"), _call("addf", _h(2), _h(0)))))),
        ("both-sides", _P(0, _P(1, L("4.0"), _call("subf", _h(1), L("1.0"))), _call("subf", _h(0), _P(2, L("10.0"), _call("mulf", _h(2), L("2.0")))))),
        ("stateful", _P(0, memnow, _call("subf", _h(0), _P(1, now, _call("mulf", _h(1), L("2.0")))))),
        ("let-in-body", _P(0, L("3.0"), Node("let", "t", _b("mul", _h(0), L("2.0")), _call("subf", _v("t"), _P(1, L("10.0"), _call("mulf", _h(1), _v("t"))))))),
        ("inner-macro-lambda", _P(0, L("3.0"), _call("addf", _h(0), _M(1, L("2.0"), _call("subf", _h(1), L("1.0")))))),
        ("inner-macro-lambda-uses", _P(0, L("3.0"), _call("addf", _h(0), _M(1, now, _call("subf", _h(1), _h(0)))))),
        ("pipe-in-macro-lambda", _M(0, L("3.0"), _call("subf", _h(0), _P(1, L("10.0"), _call("mulf", _h(1), L("2.0")))))),
        ("macro-lambda-arg", _P(0, _M(1, L("2.0"), _call("subf", _h(1), L("1.0"))), _call("mulf", _h(0), L("2.0")))),
    ]


def _sk_binders(n, acc):
    if n.kind in ("spipe", "smapp"):
        acc.append((n.a[0], n.kind))
    for _, c in coregen.children(n):
        _sk_binders(c, acc)
    return acc


def _sugar_pos(n):
    """argument position of the placeholder if pipe n can be written with `_`: its body is a call with exactly one
    direct argument that is its hole, the hole occurring nowhere else"""
    body = n.a[2]
    if n.kind != "spipe" or body.kind != "call":
        return None
    pos = [i for i, x in enumerate(body.a[1]) if x.kind == "hole" and x.a[0] == n.a[0]]
    if len(pos) != 1:
        return None
    others = [x for i, x in enumerate(body.a[1]) if i != pos[0]]
    if any(_mentions_hole(x, n.a[0]) for x in others):
        return None
    return pos[0]


def _mentions_hole(n, k):
    if n.kind == "hole" and n.a[0] == k:
        return True
    return any(_mentions_hole(c, k) for _, c in coregen.children(n))


def pipe_render(sk, naming, sugar):
    """skeleton -> staged tree; naming: binder id -> name; sugar: set of binder ids written with `_`"""
    def go(n):
        if n.kind == "hole":
            return Node("splice", _v(naming[n.a[0]]))
        if n.kind == "spipe":
            k, arg, body = n.a[0], n.a[1], n.a[2]
            extra = list(n.a[3:])
            if k in sugar:
                pos = _sugar_pos(n)
                fun = Node("call", body.a[0], [Node("ph") if i == pos else go(x) for i, x in enumerate(body.a[1])], 0)
            else:
                fun = Node("mlam", [naming[k]], Node("quote", go(body)))
            return Node("pipem", go(arg), fun, *extra)
        if n.kind == "smapp":
            k, arg, body = n.a[0], n.a[1], n.a[2]
            return Node("splice", Node("app", Node("mlam", [naming[k]], Node("quote", go(body))), [Node("quote", go(arg))]))
        return _map_children(n, go)
    return go(sk)


def pipe_manual(sk):
    """the hand-written expansion: every hole replaced by its binder's (expanded) argument"""
    def go(n, env):
        if n.kind == "hole":
            return env[n.a[0]]
        if n.kind in ("spipe", "smapp"):
            e2 = dict(env)
            e2[n.a[0]] = go(n.a[1], env)
            return go(n.a[2], e2)
        return _map_children(n, lambda c: go(c, env))
    return go(sk, {})


def pipe_class(sk, naming, sugar):
    """ok | invalid (the names do not resolve to the intended binders: another program) | S5 (a generated binder
    `__lambda_arg_<i>` of the `_` sugar captures a user splice of that name) | S6 (a non-piped macro lambda inside a piped
    body binds the name of the pipe's binder: substitute_macro_arg does not know binders)"""
    cls = ["ok"]

    def eff(n):
        k = n.a[0]
        return LAMBDA_ARG % _sugar_pos(n) if k in sugar else naming[k]

    def go(n, stack):
        if n.kind == "hole":
            k = n.a[0]
            own = [i for i, b in enumerate(stack) if b.a[0] == k][-1]
            for b in stack[own + 1:]:
                if eff(b) == eff(stack[own]):
                    cls.append("S5" if b.a[0] in sugar else "invalid")
            return
        if n.kind in ("spipe", "smapp"):
            go(n.a[1], stack)
            if n.kind == "smapp" and _mentions_hole(n.a[2], n.a[0]):
                for b in stack:
                    if b.kind == "spipe" and eff(b) == eff(n):
                        cls.append("S6")
            go(n.a[2], stack + [n])
            return
        for _, c in coregen.children(n):
            go(c, stack)
    go(sk, [])
    for c in ("invalid", "S5", "S6"):
        if c in cls:
            return c
    return "ok"


HELPERS = [Fn("addf", ["x", "y"], [F, F], F, _b("add", _v("x"), _v("y")), False, False),
           Fn("subf", ["x", "y"], [F, F], F, _b("sub", _v("x"), _v("y")), False, False),
           Fn("mulf", ["x", "y"], [F, F], F, _b("mul", _v("x"), _v("y")), False, False)]


def _pipe_prog(body):
    cnt = [0]
    return SProg([("fn", f) for f in HELPERS] + [("fn", Fn("dsp", [], [], F, resite(body, cnt), False, True))])


def pipe_variants():
    """every rendering of every skeleton: dict(shape, naming, sugar, cls, sp = rendered program, canon = the rendering with
    distinct fresh names and explicit macro lambdas, man = manual expansion (plain Prog))"""
    import itertools
    pool = ["a", "b", LAMBDA_ARG % 0, LAMBDA_ARG % 1]
    for shape, sk in pipe_skeletons():
        bs = _sk_binders(sk, [])
        ids = [k for k, _ in bs]
        sugarable = [k for k, kind in bs if kind == "spipe" and _sugar_pos(_find_binder(sk, k)) is not None]
        canon_naming = {k: "p%d" % k for k in ids}
        canon = _pipe_prog(pipe_render(sk, canon_naming, set()))
        man = _pipe_prog(pipe_manual(sk)).prog
        seen = set()
        for r in range(len(sugarable) + 1):
            for sug in itertools.combinations(sugarable, r):
                expl = [k for k in ids if k not in sug]
                for names in itertools.product(pool, repeat=len(expl)):
                    naming = dict(zip(expl, names))
                    cls = pipe_class(sk, naming, set(sug))
                    if cls == "invalid":
                        continue
                    sp = _pipe_prog(pipe_render(sk, naming, set(sug)))
                    s = sp.src()
                    if s in seen:
                        continue
                    seen.add(s)
                    yield dict(shape=shape, naming=naming, sugar=sorted(sug), cls=cls, sp=sp, canon=canon, man=man)


def _find_binder(n, k):
    if n.kind in ("spipe", "smapp") and n.a[0] == k:
        return n
    for _, c in coregen.children(n):
        r = _find_binder(c, k)
        if r is not None:
            return r
    return None


def vm_upvalue_tuple_risk(p):
    """core-language VM defect met by C09's generator after coregen learned more forms (reported, C01's matter): a closure
    that builds a tuple of three or more components whose FIRST component is a captured variable
    (`|p| { let (x, y, z) = (a, g, 100.0) … }` with `a` a parameter of the enclosing function) reads that component as
    stale/uninitialised memory on the VM on some samples (WASM and the reference semantics agree). The value is not even
    deterministic, so staged and manual runs cannot be compared: such programs are skipped (counted)."""
    def go(n, inside, bound):
        if n.kind == "lam":
            return go(n.a[1], True, set(n.a[0]))
        if inside and n.kind == "tup" and len(n.a[0]) >= 3 and n.a[0][0].kind == "var" and n.a[0][0].a[0] not in bound:
            return True
        if n.kind == "let":
            return go(n.a[1], inside, bound) or go(n.a[2], inside, bound | {n.a[0]})
        if n.kind == "lett":
            return go(n.a[1], inside, bound) or go(n.a[2], inside, bound | set(n.a[0]))
        return any(go(c, inside, bound) for _, c in coregen.children(n))
    return any(go(f.body, False, set()) for f in p.fns + [p.dsp]) or any(go(e, False, set()) for _, e in p.globals)
