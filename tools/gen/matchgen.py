"""Programs that `match` on integer literals (C01: both back ends must agree; no reference semantics needed).
The scrutinee sweeps a range that starts below the smallest arm, crosses holes between the arms and ends above the
largest one; arms are sparse literal sets; matches nest and feed each other; in half of the functions a third of the arms
hold a stateful construct of their own (a counter instance, `mem`, `delay`)."""
from coregen import Rng, hash_name

CONSTS = ["100.0", "200.0", "300.0", "400.0", "0.5", "7.0", "1000.0", "2.5", "(-3.0)"]


def arms(r, n):
    lits = sorted(r.sample_list(list(range(0, 12)), n)) if hasattr(r, "sample_list") else None
    if lits is None:
        pool = list(range(0, 12))
        lits = []
        for _ in range(n):
            lits.append(pool.pop(r.below(len(pool))))
        lits.sort()
    return lits


def make_case(seed, idx, times=24):
    r = Rng((seed << 20) ^ idx ^ (hash_name("matchint") << 40))
    nf = 1 + r.below(3)
    fns, names = [], []
    for k in range(nf):
        lits = arms(r, 1 + r.below(5))
        if r.chance(1, 3):
            lits = [x + r.below(40) for x in lits]        # sparse / shifted tables
            lits = sorted(set(lits))
        # arms with state of their own (finding F3 repaired: every arm owns its cells): a counter instance, a mem, a delay
        def arm():
            c = r.pick(CONSTS)
            if stateful and r.chance(1, 3):
                return r.pick([f"{c} + acc()", f"acc() * {c}", f"mem(n) + {c}", f"delay(4.0, n, 1.0) + {c}", f"{c} + acc() + mem(n * 2.0)"])
            return c
        stateful = r.chance(1, 2)
        body = "".join(f"    {l} => {arm()},\n" for l in lits)
        dflt = arm() if not (names and r.chance(1, 3)) else f"{r.pick(names)}(n + 1)"
        fns.append(f"fn pick{k}(n){{\n  match n {{\n{body}    _ => {dflt}\n  }}\n}}\n")
        names.append(f"pick{k}")
    terms = []
    for k in range(1 + r.below(3)):
        f = r.pick(names)
        off = r.below(9)
        src = r.pick([f"cnt() - {off}", f"floor(now * 0.5) - {off}", f"{off} - cnt()", f"cnt() * 2 - {off}", f"floor(a0) - {off}"])
        terms.append(f"{f}({src})" + (f" * {r.pick(['1.0', '0.001', '2.0'])}" if r.chance(1, 2) else ""))
    src = "fn cnt(){\n  self + 1\n}\nfn acc(){\n  self + 1\n}\n" + "".join(fns) + "fn dsp(a0:float){\n  " + " + ".join(terms) + "\n}\n"
    inputs = [[float(r.below(14)) - 3.0] for _ in range(times)]
    return src, inputs
