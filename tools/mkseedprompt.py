#!/usr/bin/env python3
"""usage: tools/mkseedprompt.py Cxx [TAG]  — creates /tmp/sd/TAG/{repo (detached worktree of /repo HEAD), out/} and /tmp/sd/TAG/PROMPT.md
(the brief of an independent sub-agent that must break property Cxx; it gets the property text and nothing from /verif)."""
import json, os, subprocess, sys
pid = sys.argv[1]; tag = sys.argv[2] if len(sys.argv) > 2 else pid
root = f"/tmp/sd/{tag}"
os.makedirs(root + "/out", exist_ok=True)
if not os.path.isdir(root + "/repo"):
    subprocess.run(["git", "-C", "/repo", "worktree", "add", "-q", "--detach", root + "/repo", "HEAD"], check=True)
p = [json.loads(l) for l in open(os.path.join(os.path.dirname(__file__), "..", "properties.jsonl")) if json.loads(l)["id"] == pid][0]
avoid = sys.argv[3] if len(sys.argv) > 3 else ""
txt = f"""# Task: plant a subtle defect that breaks one semantic property of mimium-rs

You work ONLY inside `{root}/repo` (a scratch git worktree of the mimium-rs compiler, a Rust workspace) and write your
deliverables to `{root}/out/`. Do not read or write anything under `/verif` or `/repo` (the main checkout); do not
commit. The sandbox has no network: always pass `--offline` to cargo and set `CARGO_NET_OFFLINE=true`. To keep the build
small use `export CARGO_PROFILE_DEV_DEBUG=0 CARGO_PROFILE_TEST_DEBUG=0` in every shell before cargo (debug info off) and
build into the worktree's own `target/` directory (the default). Other jobs share this machine: use at most `-j 6`.

## The property (this text is all you get)

```json
{json.dumps(p, indent=1, ensure_ascii=False)}
```

## What to produce

A SMALL change to the Rust sources of mimium-rs (a few lines to a few dozen, in the files the property is anchored in or
their neighbours) that a plausible but mistaken developer could make ("optimisation", "simplification", "defensive
check", refactoring slip, off-by-one, wrong tie-break, forgotten case, two sites that each look fine alone), such that

1. the workspace still **compiles** and the **whole existing test suite still passes**:
   `cd {root}/repo && cargo test --workspace --offline --no-fail-fast -j 6` (takes several minutes; run it for real and
   report the totals — a change that fails any existing test is useless);
2. the property above is **violated** by the changed code;
3. the violation needs **something specific to manifest** — an unusual input shape, a particular multi-step sequence of
   operations, a rare interleaving, a boundary value, a feature interaction — not something ordinary use or a trivial
   smoke test would expose at once. Prefer changes whose effect is a silently wrong result over ones that crash.
   {avoid}
4. you provide a **demonstration**: a test file or small program + the exact command to run it, which FAILS with your change
   applied and PASSES on the unchanged sources (check both directions with `git diff > /tmp/<tag>.p; git apply -R /tmp/<tag>.p; …; git apply /tmp/<tag>.p`
   — do NOT use `git stash`: the stash is shared by all scratch worktrees of this repository and other jobs run next to yours).
   A new Rust integration test under `crates/lib/mimium-test/tests/` or `crates/lib/mimium-lang/tests/` (plus any `.mmm`
   fixture it needs) is the usual form; look at the existing tests there for how programs are compiled and run on the VM
   and on WASM (`mimium_test::run_source_test`, `run_file_test_mono`, `run_source_with_scheduler_wasm`, …).

Read the code first (start from the files and mechanisms named in the property's `anchors`), understand what makes the
property true today, then choose where to break it. Do not touch tests, fixtures, or anything that merely hides the
defect from the suite.

## Deliverables in `{root}/out/`

* `patch.diff` — `git diff` of the source change ONLY (no demo files), applicable with `git apply` to the unchanged tree;
* `demo/` — the demonstration files with their paths relative to the repository root (so that copying `demo/*` over the
  repository adds them), and `demo/RUN.md` with the exact command;
* `meta.json` — {{"property": "{pid}", "summary": one-sentence description of the change and its effect,
  "files_touched": [...], "needs_to_manifest": what exactly an input/sequence must look like for the defect to show,
  "tests_run": the cargo test command and its pass/fail totals with the change applied,
  "demo_fails_with_change": true/false, "demo_passes_without_change": true/false}}.

When done, leave the worktree in the CHANGED state (patch applied, demo files present) and reply with the summary,
the needs_to_manifest text and the demo command. If after a serious attempt you cannot find a change that satisfies
1–4, say so plainly rather than delivering something that breaks the test suite or is trivially visible.
"""
open(root + "/PROMPT.md", "w").write(txt)
print(root + "/PROMPT.md")
