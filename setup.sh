#!/bin/sh
# Build the framework from files on disk only (offline): Lean models+proofs+drivers, then the Rust harness against /repo.
set -e
cd "$(dirname "$0")"
export CARGO_NET_OFFLINE=true
python3 tools/extract.py
python3 tools/mklake.py
(cd lean && lake build Mimium $(ls Drv | sed -n 's/\(.*\)\.lean/drv_\L\1/p'))
cp -f /repo/Cargo.lock harness/Cargo.lock
(cd harness && RUSTFLAGS="--cfg mimium_verif" CARGO_TARGET_DIR=/verif/target cargo build --offline --quiet)
echo setup-ok
