#!/bin/sh
# Build the framework from files on disk only (offline): Lean models+proofs+driver, then the Rust harness against /repo.
set -e
cd "$(dirname "$0")"
export CARGO_NET_OFFLINE=true
python3 tools/extract.py
(cd lean && lake build Mimium mmdriver)
cp -f /repo/Cargo.lock harness/Cargo.lock
(cd harness && RUSTFLAGS="--cfg mimium_verif" CARGO_TARGET_DIR=/verif/target cargo build --offline --quiet)
echo setup-ok
